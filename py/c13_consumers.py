#!/usr/bin/env python3
"""C13, process level: independent consumers of jaq's escaping formatters and decoders.
usage: c13_consumers.py <quick|thorough>"""
import sys, os, io, csv, html, base64, binascii, subprocess, tempfile, urllib.parse, re
sys.path.insert(0, os.path.dirname(__file__))
from common import *

tier = sys.argv[1]
R = Report()
SYMS = [b"'", b'"', b"\\", b"$", b"`", b" ", b"\t", b"\n", b"\r", b",", b";", b"&", b"<", b">", b"%", b"+", b"=", b"/", b"?", b"#", b"-", b"!", b"*", b"(",
        b"a", b"A", "é".encode(), "€".encode(), "😀".encode(), b"\xff", b"\x00", b"~"]
maxlen = 2 if tier == "quick" else 3
strs = strings_over(SYMS, maxlen)

PROG = r'''
def t(f): try f catch "§ERR";
[ ., t(@sh), t([., "x y", .] | @sh), t(@sh "X \(.) \(.)"), t([., "x", .] | @csv), t([., "x", .] | @tsv), t(@json), t(@html), t(@uri), t(@base64),
  t(@html "<a b='\(.)'>\(.)</a>"), t(@uri "q=\(.)&r=\(.)"), t(@json "[\(.),\(.)]"), t(@csv "\([., .])"), t(@base64 "\(.)") ]
'''
inp = b"\n".join(xjon_string(s) for s in strs) + b"\n"
out, err, code = run_jaq(["-c", PROG], inp)
lines = out.split(b"\n")[:-1]
if code != 0 or len(lines) != len(strs):
    R.violation("c13 batch run", {"what": "formatter batch did not produce one line per input", "exit": code, "lines": len(lines), "inputs": len(strs), "stderr": err[-300:].decode("utf-8", "replace")})
    R.emit(); sys.exit(0)
rows = [parse_line(l) for l in lines]

def unesc_tsv(f):
    out = bytearray(); i = 0
    while i < len(f):
        if f[i] == 0x5c and i + 1 < len(f):
            out += {0x74: b"\t", 0x6e: b"\n", 0x72: b"\r", 0x5c: b"\\", 0x30: b"\x00"}.get(f[i + 1], bytes([f[i], f[i + 1]])); i += 2
        else:
            out.append(f[i]); i += 1
    return bytes(out)

# ---- shell: one script, NUL-separated arguments back
script = bytearray(); expect = []
for s, r in zip(strs, rows):
    if b"\x00" in s: continue
    for idx, args in ((1, [s]), (2, [s, b"x y", s]), (3, [s, s])):
        f = to_bytes(r[idx])
        if f == "§ERR".encode(): 
            R.violation(f"@sh fails on {show(s)}", {"string": show(s), "what": "@sh raised an error on a text string"}); continue
        if idx == 3:
            assert f.startswith(b"X "), f
            f = f[2:]
        script += b"printf '%s\\0' " + f + b"\nprintf 'EOR\\0'\n"
        expect.append((s, idx, args))
with tempfile.NamedTemporaryFile(suffix=".sh", delete=False) as tf:
    tf.write(bytes(script)); path = tf.name
p = subprocess.run(["/bin/sh", path], stdout=subprocess.PIPE, stderr=subprocess.PIPE, stdin=subprocess.DEVNULL)
os.unlink(path)
recs = p.stdout.split(b"EOR\x00")[:-1]
if len(recs) != len(expect):
    R.violation("@sh script", {"what": "the shell did not evaluate the generated script completely (injection or syntax error)", "records": len(recs), "expected": len(expect), "stderr": p.stderr[:300].decode("utf-8", "replace")})
else:
    for rec, (s, idx, args) in zip(recs, expect):
        got = rec.split(b"\x00")[:-1]
        key = f"sh form{idx}: {show(s)}"
        R.case(key, len(s) > 0, len(got))
        if got != args:
            R.violation(key, {"string": show(s), "form": ["", "@sh", "[., \"x y\", .] | @sh", "@sh \"X \\(.) \\(.)\""][idx], "shell_recovered": [show(g) for g in got], "expected": [show(a) for a in args]})

# ---- csv / tsv / json / html / uri / base64
for s, r in zip(strs, rows):
    txt = s.decode("utf-8", "surrogateescape")
    # CSV
    key = f"csv: {show(s)}"
    R.case(key, len(s) > 0, "csv")
    try:
        got = list(csv.reader(io.StringIO(r[4], newline="")))
        ok = len(got) == 1 and got[0] == [txt, "x", txt]
    except Exception as e:
        ok = b"\x00" in s  # Python's csv module may refuse NUL: not jaq's fault
        got = str(e)
    if not ok:
        R.violation(key, {"string": show(s), "csv_text": r[4], "reader_recovered": got})
    # TSV
    key = f"tsv: {show(s)}"
    R.case(key, len(s) > 0, "tsv")
    fields = to_bytes(r[5]).split(b"\t")
    if [unesc_tsv(f) for f in fields] != [s, b"x", s] or b"\n" in to_bytes(r[5]) or b"\r" in to_bytes(r[5]):
        R.violation(key, {"string": show(s), "tsv_text": r[5], "reader_recovered": [show(unesc_tsv(f)) for f in fields]})
    # JSON
    key = f"json: {show(s)}"
    R.case(key, len(s) > 0, "json")
    try:
        ok = json.loads(r[6], strict=False) == txt and json.loads(r[12], strict=False) == [txt, txt]
    except Exception as e:
        ok = False
    if not ok:
        R.violation(key, {"string": show(s), "json_text": r[6], "interpolated": r[12]})
    # HTML
    key = f"html: {show(s)}"
    R.case(key, len(s) > 0, "html")
    if html.unescape(r[7]) != txt or any(c in r[7] for c in "<>\"'") or r[10] != "<a b='" + r[7] + "'>" + r[7] + "</a>":
        R.violation(key, {"string": show(s), "html_text": r[7], "interpolated": r[10]})
    # URI
    key = f"uri: {show(s)}"
    R.case(key, len(s) > 0, "uri")
    if urllib.parse.unquote_to_bytes(r[8]) != s or not re.fullmatch(r"(?:[A-Za-z0-9\-._~]|%[0-9A-Fa-f]{2})*", r[8]) or r[11] != "q=" + r[8] + "&r=" + r[8]:
        R.violation(key, {"string": show(s), "uri_text": r[8], "interpolated": r[11]})
    # base64
    key = f"base64: {show(s)}"
    R.case(key, len(s) > 0, "b64")
    try:
        ok = base64.b64decode(r[9], validate=True) == s and r[14] == r[9]
    except Exception:
        ok = False
    if not ok:
        R.violation(key, {"string": show(s), "base64_text": r[9]})
R.families["formatters x consumers"] = {"strings": len(strs), "alphabet": len(SYMS), "max_length": maxlen, "consumers": ["dash", "csv.reader", "tsv reader", "json.loads", "html.unescape", "unquote_to_bytes", "b64decode"]}
R.bounds.append(f"all strings of length <= {maxlen} over {len(SYMS)} metacharacters / multi-byte characters / invalid byte / NUL through 7 consumers")
R.samples.append({"string": show(strs[len(strs)//2]), "row": rows[len(strs)//2][1:10]})

# ---- decoders on malformed input
DSYMS = [b"A", b"Q", b"=", b"-", b"%", b"4", b"1", b"G", b"z", b"&", b";", b"l", b"t", b"a", b"m", b"p"]
dstrs = strings_over(DSYMS, 3 if tier == "quick" else 4)
DPROG = r'''def t(f): try (f | {ok: (. | tobytes | . as $b | [range(length) | $b[.]])}) catch {err: 1}; [t(@base64d), t(@urid), t(@htmld)]'''
inp = b"\n".join(xjon_string(s) for s in dstrs) + b"\n"
out, err, code = run_jaq(["-c", DPROG], inp)
lines = out.split(b"\n")[:-1]
if code != 0 or len(lines) != len(dstrs):
    R.violation("c13 decoder batch run", {"exit": code, "lines": len(lines), "inputs": len(dstrs), "stderr": err[-300:].decode("utf-8", "replace")})
else:
    for s, l in zip(dstrs, lines):
        b64, uri, htm = parse_line(l)
        key = f"base64d: {show(s)}"
        try:
            ref = base64.b64decode(s, validate=True)
        except (binascii.Error, ValueError):
            ref = None
        R.case(key, ref is not None and len(s) > 0, "ok" if "ok" in b64 else "err")
        if "ok" in b64:
            got = bytes(b64["ok"])
            # success implies that the whole input was decoded: re-encoding reproduces it
            if base64.b64encode(got).rstrip(b"=") != s.rstrip(b"=") or (ref is not None and ref != got):
                R.violation(key, {"input": show(s), "jaq_decoded": show(got), "strict_reference": show(ref) if ref is not None else "rejects", "what": "decoder accepted malformed input or decoded only part of it"})
        elif ref is not None and base64.b64encode(ref).rstrip(b"=") == s.rstrip(b"="):
            # only the canonical spelling must be accepted: a spelling whose unused trailing bits are not zero
            # (which a lenient decoder maps to the same bytes) may be rejected
            R.violation(key, {"input": show(s), "what": "canonical base64 rejected", "reference": show(ref)})
        key = f"urid: {show(s)}"
        ref = urllib.parse.unquote_to_bytes(s)
        R.case(key, b"%" in s, "ok" if "ok" in uri else "err")
        if "ok" in uri and bytes(uri["ok"]) != ref:
            R.violation(key, {"input": show(s), "jaq_decoded": show(bytes(uri["ok"])), "reference": show(ref)})
        key = f"htmld: {show(s)}"
        ref = s
        for ent, ch in ((b"&lt;", b"<"), (b"&gt;", b">"), (b"&quot;", b'"'), (b"&apos;", b"'"), (b"&amp;", b"&")):
            ref = ref.replace(ent, ch)
        R.case(key, b"&" in s, "ok" if "ok" in htm else "err")
        if "ok" in htm and bytes(htm["ok"]) != ref and len(bytes(htm["ok"])) < len(s) - 5:
            R.violation(key, {"input": show(s), "jaq_decoded": show(bytes(htm["ok"])), "what": "decoder dropped data"})
    R.families["decoders"] = {"inputs": len(dstrs), "alphabet": [a.decode() for a in DSYMS]}
    R.bounds.append(f"all decoder inputs of length <= {3 if tier == 'quick' else 4} over {len(DSYMS)} symbols for @base64d, @urid, @htmld")
R.emit()
