"""Shared helpers for the process-level drivers (python3 stdlib only)."""
import json, os, subprocess, sys, time, itertools, hashlib

JAQ = os.environ.get("JAQ_BIN", "/verif/target/jaqbin/debug/jaq")
T0 = time.time()
BUDGET = float(os.environ.get("VERIF_BUDGET_S", "40"))

def time_left():
    return time.time() - T0 < BUDGET

def strings_over(alphabet, maxlen):
    """all sequences (as bytes) of length <= maxlen over the alphabet (list of bytes objects)"""
    out = [b""]
    frontier = [b""]
    for _ in range(maxlen):
        frontier = [s + a for s in frontier for a in alphabet]
        out.extend(frontier)
    return out

def xjon_string(b):
    """a byte sequence as an XJON/JSON text-string literal (raw bytes kept, controls escaped)"""
    out = bytearray(b'"')
    for c in b:
        if c == 0x22: out += b'\\"'
        elif c == 0x5c: out += b'\\\\'
        elif c < 0x20 or c == 0x7f: out += b'\\u%04x' % c
        else: out.append(c)
    out += b'"'
    return bytes(out)

def parse_line(line):
    """parse one line of `jaq -c` output that may contain raw invalid UTF-8 inside strings"""
    return json.loads(line.decode("utf-8", "surrogateescape"), strict=False)

def to_bytes(s):
    return s.encode("utf-8", "surrogateescape")

def run_jaq(args, stdin=b"", timeout=600, env=None, cwd=None):
    p = subprocess.run([JAQ] + list(args), input=stdin, stdout=subprocess.PIPE, stderr=subprocess.PIPE, timeout=timeout, env=env, cwd=cwd)
    return p.stdout, p.stderr, p.returncode

class Report:
    def __init__(self):
        self.cases = []; self.violations = []; self.families = {}; self.samples = []; self.bounds = []; self.capped = []; self.transitions = 0
    def case(self, key, nontrivial=True, outcome=""):
        self.cases.append([key if len(key) < 200 else hashlib.sha1(key.encode("utf-8", "surrogateescape")).hexdigest(), bool(nontrivial), str(outcome)[:60]])
    def violation(self, key, detail):
        if len(self.violations) < 300:
            self.violations.append({"key": key, "detail": detail})
    def emit(self):
        def clean(x):
            # lone surrogates (from undecodable bytes) are not valid in JSON for every reader
            if isinstance(x, str): return x.encode("utf-8", "backslashreplace").decode("utf-8")
            if isinstance(x, bytes): return x.decode("utf-8", "backslashreplace")
            if isinstance(x, list): return [clean(y) for y in x]
            if isinstance(x, tuple): return [clean(y) for y in x]
            if isinstance(x, dict): return {clean(k) if isinstance(k, (str, bytes)) else k: clean(v) for k, v in x.items()}
            return x
        self.cases, self.violations, self.families, self.samples = clean(self.cases), clean(self.violations), clean(self.families), clean(self.samples)
        sys.stdout.write(json.dumps({"cases": self.cases, "violations": self.violations, "families": self.families, "samples": self.samples[:12],
                                     "bounds": self.bounds, "capped": self.capped, "transitions": self.transitions}))

def show(b):
    return repr(b)[1:] if isinstance(b, bytes) else repr(b)
