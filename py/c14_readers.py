#!/usr/bin/env python3
"""C14, process level: independent readers of what jaq writes, and --to/--from on the command line.
usage: c14_readers.py <quick|thorough>"""
import sys, os, io, csv, json, math
sys.path.insert(0, os.path.dirname(__file__))
from common import *
try:
    import yaml
except Exception:
    yaml = None
import tomllib
from xml.dom import minidom

tier = sys.argv[1]
R = Report()
ATOMS = ["null", "~", "true", "yes", "on", "n", "1", "+1", "-1", ".5", "-.5", "1.", "1e3", "1_0", "0x1F", "0o7", ".inf", "-.inf", "+.inf", ".nan", "-", "?", ":", ",", "[", "]", "{", "}", "#", "&", "*", "!",
         "|", ">", "'", "\"", "%", "@", "`", "---", "...", "-a", "a-", "a:b", "a: b", "a #b", "#a", " a", "a ", "a\t", "\ta", "a\nb", "", "é", "\u0085", "﻿", "<<", "=", "- a", "? a", "a:", ":a", "a,b", "[a]",
         "{a}", "!!str a", "&a b", "*a", "12:30", "2001-01-01", "a\\b", "a\"b", "a'b", "\\n", "\u007f", "\u0001", "0 ", " 0", "true ", "𝄞", "a\r", "\n", " ", "key", "a.b", "a b", "ünï"]
PARTNERS = ["true", "1", " a", "a ", "-", "", ": "] if tier == "quick" else ATOMS

def placements(s):
    v = [s, [s], [[s]], {"k": s}, {s: 1}, {"k": {s: [s]}}, [{"k": s}], [1, s, None], {"a": {"b": s}, "c": [s, {"d": s}]}]
    for p in PARTNERS:
        v += [[s, p], [p, s]]
        if s != p:
            v += [{s: p}, {p: s, s: p}]
    return v

values = []
seen = set()
for a in ATOMS:
    for v in placements(a):
        k = json.dumps(v, sort_keys=False)
        if k not in seen:
            seen.add(k); values.append(v)
for extra in [None, True, False, 0, -1, 1.5, 1e300, 10**30, [], {}, [[], {}], {"a": []}, {"a": {}}, [None, None], {"k": None}, [1.0, 2.5e-7]]:
    values.append(extra)

inp = ("\n".join(json.dumps(v, ensure_ascii=False) for v in values) + "\n").encode("utf-8")

def batch(prog, extra_args=()):
    out, err, code = run_jaq(list(extra_args) + ["-c", prog], inp)
    lines = out.split(b"\n")[:-1]
    if code != 0 or len(lines) != len(values):
        R.violation(f"c14 batch {prog}", {"what": "batch did not produce one line per value", "exit": code, "lines": len(lines), "values": len(values), "stderr": err[-300:].decode("utf-8", "replace")})
        return None
    return [parse_line(l) for l in lines]

def pyyaml_11_limit(v):
    """PyYAML implements YAML 1.1: a plain scalar starting with ':' or '?' followed by a non-space (valid in YAML 1.2) is rejected"""
    # ... and NEL / LS / PS are line breaks in YAML 1.1 but ordinary characters in YAML 1.2
    if isinstance(v, str): return (len(v) > 1 and v[0] in ":?" and not v[1].isspace()) or any(c in v for c in "\x85\u2028\u2029")
    if isinstance(v, list): return any(pyyaml_11_limit(x) for x in v)
    if isinstance(v, dict): return any(pyyaml_11_limit(k) or pyyaml_11_limit(x) for k, x in v.items())
    return False

def plain(v):
    """what an untyped YAML reader (all scalars as text) must see"""
    if v is None: return "null"
    if v is True: return "true"
    if v is False: return "false"
    if isinstance(v, (int, float)): return json.dumps(v)
    if isinstance(v, str): return v
    if isinstance(v, list): return [plain(x) for x in v]
    return {plain(k): plain(x) for k, x in v.items()}

# ---- YAML (compact and indented) read by PyYAML's untyped loader
if yaml is not None:
    for name, prog in (("compact", "try toyaml catch null"),):
        rows = batch(prog)
        if rows:
            for v, text in zip(values, rows):
                if pyyaml_11_limit(v): continue
                key = f"yaml-{name}: {json.dumps(v, ensure_ascii=True)}"
                R.case(key, v not in (None, [], {}), "y")
                if text is None:
                    R.violation(key, {"what": "toyaml failed on a value of its domain"}); continue
                try:
                    got = yaml.load(text, Loader=yaml.BaseLoader)
                except Exception as e:
                    R.violation(key, {"yaml_text": text, "what": "independent YAML reader rejects jaq's output", "error": str(e)[:200]}); continue
                exp = plain(v)
                if got != exp and not (exp == "null" and got in ("null", "~", "")):
                    R.violation(key, {"yaml_text": text, "independent_reader_sees": repr(got)[:300], "expected_scalars": repr(exp)[:300]})
    # indented output through the command line
    vals11 = [v for v in values if not pyyaml_11_limit(v)]
    inp11 = ("\n".join(json.dumps(v, ensure_ascii=False) for v in vals11) + "\n").encode("utf-8")
    out, err, code = run_jaq(["--to", "yaml", "."], inp11)
    if code != 0:
        R.violation("yaml cli --to yaml", {"exit": code, "stderr": err[-300:].decode("utf-8", "replace")})
    else:
        try:
            docs = list(yaml.load_all(out.decode("utf-8"), Loader=yaml.BaseLoader))
        except Exception as e:
            docs = None
            R.violation("yaml cli --to yaml: stream", {"what": "independent YAML reader rejects the indented document stream", "error": str(e)[:300]})
        if docs is not None:
            if len(docs) != len(vals11):
                R.violation("yaml cli --to yaml: documents", {"documents": len(docs), "values": len(vals11)})
            else:
                for v, got in zip(vals11, docs):
                    key = f"yaml-indented: {json.dumps(v, ensure_ascii=False)}"
                    R.case(key, v not in (None, [], {}), "yi")
                    exp = plain(v)
                    if got != exp and not (exp == "null" and got in ("null", "~", "", None)):
                        R.violation(key, {"independent_reader_sees": repr(got)[:300], "expected_scalars": repr(exp)[:300]})
    R.families["yaml independent reader"] = {"values": len(values), "reader": "PyYAML %s BaseLoader" % yaml.__version__}
else:
    R.families["yaml independent reader"] = {"skipped": "PyYAML not importable: the 'well-formed for an independent reader' clause is NOT checked for YAML"}

# ---- command line --to F | --from F equals the filters' round trip
for fmt in ("yaml", "cbor", "json"):
    out1, err1, code1 = run_jaq(["--to", fmt, "."], inp)
    out2, err2, code2 = run_jaq(["--from", fmt, "-c", "."], out1)
    ref, _, _ = run_jaq(["-c", "."], inp)
    key = f"cli --to {fmt} | --from {fmt}"
    R.case(key, True, fmt)
    a, b = out2.split(b"\n"), ref.split(b"\n")
    def same_line(x, y):
        if x == y: return True
        try: return json.loads(x) == json.loads(y)   # the spelling of an exponent is not part of the value
        except Exception: return False
    if code1 != 0 or code2 != 0 or len(a) != len(b) or not all(same_line(x, y) for x, y in zip(a, b)):
        i = next((i for i, (x, y) in enumerate(zip(a, b)) if not same_line(x, y)), min(len(a), len(b)))
        R.violation(key, {"exit": [code1, code2], "first_difference_at_value": i, "got": a[i][:200].decode("utf-8", "replace") if i < len(a) else None, "expected": b[i][:200].decode("utf-8", "replace") if i < len(b) else None,
                          "stderr": (err1 + err2)[-300:].decode("utf-8", "replace")})
# filters vs options produce the same text
rows = batch("[(try toyaml catch null), (try tojson catch null)]")
if rows:
    outy, _, _ = run_jaq(["--to", "yaml", "-j", "-c", "."], inp)
    # the compact YAML texts concatenated (-j: no document markers, no newline)
    exp = "".join(r[0] + "\n" for r in rows if r[0] is not None).encode("utf-8")
    R.case("cli --to yaml -c -j == toyaml", True, "opt")
    if outy != exp:
        R.violation("cli --to yaml -c -j == toyaml", {"what": "--to yaml differs from the toyaml filter", "got": outy[:200].decode("utf-8", "replace"), "expected": exp[:200].decode("utf-8", "replace")})

# ---- TOML read by tomllib
def toml_ok(v, top=True):
    if top: return isinstance(v, dict) and all(isinstance(k, str) for k in v) and all(toml_ok(x, False) for x in v.values())
    if v is None: return False
    if isinstance(v, bool) or isinstance(v, str) or isinstance(v, float): return True
    if isinstance(v, int): return -2**63 <= v < 2**63
    if isinstance(v, list): return all(toml_ok(x, False) for x in v)
    return all(isinstance(k, str) for k in v) and all(toml_ok(x, False) for x in v.values())
rows = batch("try totoml catch null")
if rows:
    n = 0
    for v, text in zip(values, rows):
        if not toml_ok(v): continue
        n += 1
        key = f"toml: {json.dumps(v, ensure_ascii=False)}"
        R.case(key, len(v) > 0, "t")
        if text is None:
            R.violation(key, {"what": "totoml failed on a value of its domain"}); continue
        try:
            got = tomllib.loads(text)
        except Exception as e:
            R.violation(key, {"toml_text": text, "what": "tomllib rejects jaq's output", "error": str(e)[:200]}); continue
        if got != v:
            R.violation(key, {"toml_text": text, "tomllib_sees": repr(got)[:300]})
    R.families["toml independent reader"] = {"values": n, "reader": "tomllib"}

# ---- CSV read by Python's csv module
FIELDS = [None, True, 1, -1, 1.5, "", "a", ",", "\"", "\n", "\r\n", "\t", "true", "1", "\"\"", " a ", "a,b\"c\nd", "é", ";", "'"]
rowsv = [[]] 
fr = [[]]
for _ in range(2 if tier == "quick" else 3):
    fr = [r + [f] for r in fr for f in FIELDS]
    rowsv += fr
inp2 = ("\n".join(json.dumps(v, ensure_ascii=False) for v in rowsv) + "\n").encode("utf-8")
out, err, code = run_jaq(["-c", "tocsv"], inp2)
lines = out.split(b"\n")[:-1]
if code != 0 or len(lines) != len(rowsv):
    R.violation("c14 csv batch", {"exit": code, "lines": len(lines), "rows": len(rowsv)})
else:
    def cell(f):
        if f is None: return ""
        if f is True: return "true"
        if f is False: return "false"
        if isinstance(f, str): return f
        return json.dumps(f)
    for r, l in zip(rowsv, lines):
        text = parse_line(l)
        key = f"csv: {json.dumps(r, ensure_ascii=False)}"
        R.case(key, len(r) > 0, "c")
        got = list(csv.reader(io.StringIO(text, newline="")))
        exp = [[cell(f) for f in r]] if r else []
        if got != exp and not (r == [None] and got == []) and not (len(r) == 1 and r[0] in (None, "") and got in ([], [[]], [[""]])):
            R.violation(key, {"csv_text": text, "csv_reader_sees": got, "expected": exp})
    R.families["csv independent reader"] = {"rows": len(rowsv), "reader": "csv.reader"}

# ---- XML: what jaq writes is well-formed for minidom
XDOCS = ["<a/>", "<a></a>", "<a x=\"1\" y='&amp;'>t&lt;<b/>u</a>", "<?xml version=\"1.0\"?><a><!--c--><![CDATA[d]]><?pi c?></a>", "<!DOCTYPE a><a>é</a>", "<a>\n <b c=\"&quot;\"> x </b>\n</a>",
         "<c:d xmlns:c=\"u\" c:e=\"f\"/>", "<a><b><c><d>deep</d></c></b></a>", "<a x=\"&lt;&gt;&apos;\"/>", "<!DOCTYPE a [ <!ENTITY e \"v\"> ]><a>&e;</a>"]
for path in ("/repo/examples/test.xhtml", "/repo/examples/cbor-examples.xhtml"):
    try: XDOCS.append(open(path, encoding="utf-8").read())
    except Exception: pass
inp3 = ("\n".join(json.dumps(d) for d in XDOCS) + "\n").encode("utf-8")
out, err, code = run_jaq(["-c", "try ([fromxml] | toxml) catch null"], inp3)
lines = out.split(b"\n")[:-1]
def shape(node):
    if node.nodeType == node.ELEMENT_NODE:
        return (node.tagName, sorted((a.name, a.value) for a in node.attributes.values()), [shape(c) for c in node.childNodes if c.nodeType in (node.ELEMENT_NODE,)], "".join(c.data for c in node.childNodes if c.nodeType == node.TEXT_NODE).split())
    return None
for d, l in zip(XDOCS, lines):
    text = parse_line(l)
    key = f"xml: {d[:60]!r}"
    R.case(key, True, "x")
    if text is None:
        R.violation(key, {"what": "fromxml | toxml failed on a well-formed document"}); continue
    try:
        a = minidom.parseString(d.encode("utf-8")); b = minidom.parseString(text.encode("utf-8"))
    except Exception as e:
        R.violation(key, {"xml_text": text[:300], "what": "minidom rejects jaq's XML output", "error": str(e)[:200]}); continue
    if shape(a.documentElement) != shape(b.documentElement):
        R.violation(key, {"xml_text": text[:300], "what": "element structure differs after fromxml | toxml"})
R.families["xml independent reader"] = {"documents": len(XDOCS), "reader": "xml.dom.minidom"}
R.bounds.append(f"{len(values)} placed values through PyYAML / tomllib / json and the command-line --to/--from options; {len(rowsv)} CSV rows through csv.reader; {len(XDOCS)} XML documents through minidom")
R.samples.append({"value": values[37], "readers": ["PyYAML BaseLoader", "tomllib", "csv.reader", "minidom"]})
R.emit()
