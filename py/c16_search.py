#!/usr/bin/env python3
"""C16 (process level): module and data files are looked up in a fixed order.
For every placement of a module file among the candidate directories, the run must load the first
candidate in the documented order: the directive's `search` metadata (relative to the importing
file, or to the working directory for an inline main program) before the -L paths, `~` and `$ORIGIN`
expanded, default paths when no -L is given; `.jq`/`.json` appended only when no extension is
given; absolute paths refused.
usage: c16_search.py <quick|thorough>"""
import sys, os, json, tempfile, shutil, subprocess, itertools
sys.path.insert(0, os.path.dirname(__file__))
from common import *

tier = sys.argv[1]
R = Report()

def fresh():
    w = tempfile.mkdtemp(prefix="c16-")
    os.makedirs(os.path.join(w, "bin"))
    exe = os.path.join(w, "bin", "jaq")
    try:
        os.link(JAQ, exe)
    except OSError:
        shutil.copy2(JAQ, exe)
    os.makedirs(os.path.join(w, "home"))
    return w, exe

def put(w, rel, text):
    p = os.path.join(w, rel)
    os.makedirs(os.path.dirname(p), exist_ok=True)
    with open(p, "w") as f: f.write(text)

def run(w, exe, args, cwd=None):
    env = {"PATH": os.environ.get("PATH", ""), "HOME": os.path.join(w, "home")}
    p = subprocess.run([exe] + args, cwd=cwd or w, stdout=subprocess.PIPE, stderr=subprocess.PIPE, env=env, timeout=60)
    return p.stdout.decode("utf-8", "replace").strip(), p.stderr.decode("utf-8", "replace"), p.returncode

def placement_family(name, candidates, build_args, main_text, main_file=None, kind="module"):
    """candidates: ordered list of directories (relative to the scratch root) in documented order.
    For every non-empty subset that holds the file, the first candidate must win; with no candidate it is an error."""
    n = len(candidates)
    for mask in range(0, 2 ** n):
        w, exe = fresh()
        try:
            present = [c for i, c in enumerate(candidates) if mask >> i & 1]
            for c in candidates:
                os.makedirs(os.path.join(w, c), exist_ok=True)
            for c in present:
                if kind == "module":
                    put(w, os.path.join(c, "m.jq"), f'def where: "{c}";\n')
                else:
                    put(w, os.path.join(c, "m.json"), json.dumps(c) + "\n")
            if main_file:
                put(w, main_file, main_text)
            args = build_args(w)
            out, err, code = run(w, exe, args)
            key = f"{name}: file present in {present or 'no candidate'}"
            R.case(key, True, out[:40] + str(code)); R.transitions += 1
            if not present:
                if code == 0:
                    R.violation(key, {"argv": args, "what": "no candidate directory holds the file, yet the run succeeded", "stdout": out})
                elif code != 3:
                    R.violation(key, {"argv": args, "what": f"a missing module is a load error (status 3), got {code}", "stderr": err[:300]})
            else:
                want = json.dumps(present[0]) if kind == "module" else json.dumps([present[0]])
                got = out.replace(" ", "").replace("\n", "")
                if code != 0 or got != want.replace(" ", ""):
                    R.violation(key, {"argv": args, "candidates_in_documented_order": candidates, "present": present, "expected": want, "stdout": out, "status": code, "stderr": err[:300]})
        finally:
            shutil.rmtree(w, ignore_errors=True)

# inline main program: search metadata relative to the working directory, then -L paths in order
placement_family("inline main, include with search [S1, S2], -L L1 -L L2", ["S1", "S2", "L1", "L2"],
                 lambda w: ["-n", "-L", "L1", "-L", "L2", 'include "m" {search: ["S1", "S2"]}; where'], None)
# main program in a file: search metadata relative to that file's directory
placement_family("main in sub/prog.jq, import with search [S1, ../S2], -L L1", ["sub/S1", "S2", "L1"],
                 lambda w: ["-n", "-L", "L1", "-f", "sub/prog.jq"], 'import "m" as M {search: ["S1", "../S2"]}; M::where\n', main_file="sub/prog.jq")
# search given as a single string; data import
placement_family("inline main, data import with search \"S1\", -L L1 -L L2", ["S1", "L1", "L2"],
                 lambda w: ["-n", "-c", "-L", "L1", "-L", "L2", 'import "m" as $d {search: "S1"}; $d'], None, kind="data")
# ~ and $ORIGIN in -L and in the metadata
placement_family("~ and $ORIGIN expansion", ["home/S", "bin/T", "home/L", "bin/K"],
                 lambda w: ["-n", "-L", "~/L", "-L", "$ORIGIN/K", 'include "m" {search: ["~/S", "$ORIGIN/T"]}; where'], None)
# the same from a main program in a file and from a module file (metadata is joined to the importing file's directory
# only when it is not one of the two prefixes)
placement_family("~ and $ORIGIN expansion, main in sub/prog.jq", ["home/S", "bin/T", "sub/R", "home/L"],
                 lambda w: ["-n", "-L", "~/L", "-f", "sub/prog.jq"], 'include "m" {search: ["~/S", "$ORIGIN/T", "R"]}; where\n', main_file="sub/prog.jq")
placement_family("~ and $ORIGIN expansion in a module's own directive", ["home/S", "bin/T", "lib/R"],
                 lambda w: ["-n", "-L", "lib", 'include "outer"; where2'], 'include "m" {search: ["~/S", "$ORIGIN/T", "R"]}; def where2: where;\n', main_file="lib/outer.jq")
# default library paths when no -L is given
placement_family("default paths ~/.jq, $ORIGIN/../lib/jq, $ORIGIN/../lib", ["home/.jq", "lib/jq", "lib"],
                 lambda w: ["-n", 'include "m"; where'], None)
# search metadata that is neither a string nor an array contributes nothing
placement_family("search: 1 contributes nothing", ["L1"],
                 lambda w: ["-n", "-L", "L1", 'include "m" {search: 1}; where'], None)

# a module found through the metadata of its importer resolves its own imports relative to itself
def nested():
    for where_n in ("S1/inner", "L1", None):
        w, exe = fresh()
        try:
            put(w, "S1/m.jq", 'include "n" {search: "inner"}; def where: ["S1", n_where];\n')
            for c in ("S1/inner", "L1"):
                os.makedirs(os.path.join(w, c), exist_ok=True)
            if where_n:
                put(w, os.path.join(where_n, "n.jq"), f'def n_where: "{where_n}";\n')
            # decoys that must not be taken: `inner` relative to the working directory
            put(w, "inner/n.jq", 'def n_where: "WRONG: relative to the working directory";\n') if where_n != "L1" else None
            args = ["-n", "-c", "-L", "L1", 'include "m" {search: "S1"}; where']
            out, err, code = run(w, exe, args)
            key = f"nested include: n.jq in {where_n}"
            R.case(key, True, out[:50]); R.transitions += 1
            if where_n is None:
                # only the decoy exists: ./inner is not a candidate
                if code == 0:
                    R.violation(key, {"argv": args, "what": "n.jq was taken from a directory that is not a candidate", "stdout": out})
            else:
                want = json.dumps(["S1", where_n], separators=(",", ":"))
                if code != 0 or out != want:
                    R.violation(key, {"argv": args, "expected": want, "stdout": out, "status": code, "stderr": err[:300]})
        finally:
            shutil.rmtree(w, ignore_errors=True)
nested()

# extensions are appended only when none is given; absolute paths are refused
def extension_cases():
    cases = [
        ("include \"m\" loads m.jq", {"L/m.jq": 'def f: "m.jq";'}, 'include "m"; f', '"m.jq"', 0),
        ("include \"m.jq\" loads m.jq", {"L/m.jq": 'def f: "m.jq";'}, 'include "m.jq"; f', '"m.jq"', 0),
        ("include \"m.txt\" loads m.txt, not m.jq", {"L/m.jq": 'def f: "m.jq";', "L/m.txt": 'def f: "m.txt";'}, 'include "m.txt"; f', '"m.txt"', 0),
        ("include \"m.txt\" with only m.jq present is an error", {"L/m.jq": 'def f: "m.jq";'}, 'include "m.txt"; f', None, 3),
        ("include \"m\" with only m.txt present is an error", {"L/m.txt": 'def f: "m.txt";'}, 'include "m"; f', None, 3),
        ("import \"d\" as $d loads d.json", {"L/d.json": "1 2"}, 'import "d" as $d; $d', "[1,2]", 0),
        ("import \"d.json\" as $d loads d.json", {"L/d.json": "1 2"}, 'import "d.json" as $d; $d', "[1,2]", 0),
        ("import \"d.dat\" as $d loads d.dat, not d.json", {"L/d.json": "1", "L/d.dat": "2"}, 'import "d.dat" as $d; $d', "[2]", 0),
        ("import \"d.dat\" as $d with only d.json present is an error", {"L/d.json": "1"}, 'import "d.dat" as $d; $d', None, 3),
        ("module in a sub-directory", {"L/x/m.jq": 'def f: "x/m";'}, 'include "x/m"; f', '"x/m"', 0),
        ("directory named like the module is not a module", {"L/m.jq/keep": "", "L2/m.jq": 'def f: "L2";'}, 'include "m"; f', '"L2"', 0),
        ("absolute path is refused", {"L/m.jq": 'def f: "m.jq";'}, 'include "@ABS@/L/m"; f', None, 3),
        ("absolute data path is refused", {"L/d.json": "1"}, 'import "@ABS@/L/d" as $d; $d', None, 3),
        ("import and include of the same file", {"L/m.jq": 'def f: "m";'}, 'include "m"; import "m" as M; [f, M::f]', '["m","m"]', 0),
        ("circular include is reported", {"L/a.jq": 'include "b"; def f: 1;', "L/b.jq": 'include "a"; def g: 2;'}, 'include "a"; f', None, 3),
        ("self include is reported", {"L/a.jq": 'include "a"; def f: 1;'}, 'include "a"; f', None, 3),
        ("command-line variable is visible in a module", {"L/m.jq": "def f: $glob;"}, 'include "m"; f', '"G"', 0),
        ("variable bound around the call is not visible in the module", {"L/m.jq": "def f: $x;"}, 'include "m"; 1 as $x | f', None, 3),
        ("data variable of the importer is not visible in the module", {"L/m.jq": "def f: $d;", "L/d.json": "1"}, 'import "d" as $d; include "m"; f', None, 3),
    ]
    for name, files, prog, want, wcode in cases:
        w, exe = fresh()
        try:
            for d in ("L", "L2"):
                os.makedirs(os.path.join(w, d), exist_ok=True)
            for rel, text in files.items():
                put(w, rel, text)
            args = ["-n", "-c", "-L", "L", "-L", "L2", "--arg", "glob", "G", prog.replace("@ABS@", w)]
            out, err, code = run(w, exe, args)
            key = f"names: {name}"
            R.case(key, True, out[:40] + str(code)); R.transitions += 1
            if code != wcode or (want is not None and out != want):
                R.violation(key, {"argv": args, "files": files, "expected_stdout": want, "expected_status": wcode, "stdout": out, "status": code, "stderr": err[:300]})
        finally:
            shutil.rmtree(w, ignore_errors=True)
extension_cases()

R.families["search order and file names"] = {"runs": len(R.cases)}
R.bounds.append("every subset of the candidate directories holding the file, for 6 lookup situations (inline/file main, string/array/ignored metadata, data import, ~ and $ORIGIN, default paths); nested lookup relative to the importing module; 19 extension/absolute-path/visibility cases")
R.emit()
