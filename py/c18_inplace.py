#!/usr/bin/env python3
"""C18: --in-place replaces a file atomically and only after complete success.
Fault/crash-point enumeration with tools/sysmon (ptrace): for every scenario, a dry run records the
history of durable-effect system calls issued after the first input file is opened; then the run is
repeated once per call with the process tree killed just before that call, and once per (call, errno)
with the call failing, and once per write with a short write. The final file-system state of every
run is checked against the invariant of the property.
usage: c18_inplace.py <quick|thorough>"""
import sys, os, shutil, stat, subprocess, tempfile, json, itertools, concurrent.futures
sys.path.insert(0, os.path.dirname(__file__))
from common import *

tier = sys.argv[1]
ROOT = os.environ.get("VERIF_ROOT", "/verif")
SYSMON = os.path.join(ROOT, "target", "sysmon")
R = Report()
# process start-up dominates the cost of a run: use the optimised build of the same tree when the entry script built one
JAQ_FAST = os.environ.get("JAQ_BIN_RELEASE") if os.path.exists(os.environ.get("JAQ_BIN_RELEASE", "/nonexistent")) else JAQ

def scenarios():
    S = []
    inputs = {"tiny": b'{"a":1}\n', "two": b'{"a":1} {"a":2}\n', "medium": (b'{"k":[' + b",".join(b"%d" % i for i in range(40)) + b']}\n'), "empty": b""}
    filters = {"identity": ".", "incr": ".a |= . + 1000000", "shrink": "0", "empty": "empty", "err0": 'error("x")', "err1": '., error("x")', "halt": "halt", "halt1": "., halt(3)", "second_fails": 'if .a == 2 then error("x") else . end'}
    def add(name, files, filt, mode=0o644, form="rel", fmt=None, bad=None, umask=0o022, opts=()):
        S.append({"name": name, "files": files, "filter": filt, "mode": mode, "form": form, "fmt": fmt, "bad": bad, "umask": umask, "opts": list(opts)})
    # one file: every filter x every input
    for fn, f in filters.items():
        for inn, data in inputs.items():
            if fn == "second_fails" and inn != "two": continue
            if tier == "quick" and inn == "medium" and fn not in ("identity", "err1"): continue
            add(f"1file/{fn}/{inn}", [data], f)
    # parse failure at value k
    add("1file/parse-error-at-1", [b'{"a":1} {"a":\n'], ".")
    add("1file/parse-error-at-0", [b'{"a"\n'], ".")
    # mode bits and path forms
    for mode in (0o444, 0o600, 0o755):
        add(f"1file/identity/mode{mode:o}", [inputs["tiny"]], ".a |= . + 1", mode=mode)
    # permission bits that the process umask would clear, and a restrictive umask
    for mode, um in ((0o666, 0o022), (0o664, 0o027), (0o644, 0o077), (0o777, 0o077), (0o604, 0o022)):
        add(f"1file/incr/mode{mode:o}-umask{um:03o}", [inputs["tiny"]], ".a |= . + 1", mode=mode, umask=um)
    for form in ("dot", "abs", "subdir"):
        add(f"1file/incr/{form}", [inputs["tiny"]], ".a |= . + 1", form=form)
    # several files: success, and failure on the second / third file
    add("2files/incr", [inputs["tiny"], inputs["two"]], ".a |= . + 1")
    add("3files/incr", [inputs["tiny"], inputs["two"], inputs["tiny"]], ".a |= . + 1")
    add("2files/second-fails", [inputs["tiny"], inputs["two"]], 'if .a == 2 then error("x") else .a |= . + 1 end')
    add("3files/second-unparsable", [inputs["tiny"], b'{"a":\n', inputs["tiny"]], ".a |= . + 1")
    add("2files/halt-in-second", [inputs["tiny"], inputs["two"]], "if .a == 2 then halt(5) else . end")
    # other formats
    add("1file/yaml", [b"a: 1\nb: [x, y]\n"], ".a |= . + 1", fmt="yaml")
    # output options: the file holds exactly what the same invocation without -i prints
    add("1file/incr/-C", [inputs["tiny"]], ".a |= . + 1", opts=["-C"])
    if tier != "quick":
        add("1file/incr/-c -S", [b'{"b": 1, "a": 1}\n'], ".a |= . + 1", opts=["-c", "-S"])
        add("1file/incr/--tab", [inputs["tiny"]], ".a |= . + 1", opts=["--tab"])
        add("1file/strings/-r", [b'"x" "y"\n'], ".", opts=["-r"])
        add("1file/strings/-j", [b'"x" "y"\n'], ".", opts=["-j"])
        add("1file/to yaml -C", [inputs["tiny"]], ".", opts=["--to", "yaml", "-C"])
    if tier != "quick":
        add("1file/medium/incr/0444", [inputs["medium"]], ".k |= map(. + 1)", mode=0o444)
        add("3files/third-fails", [inputs["tiny"], inputs["tiny"], inputs["two"]], 'if .a == 2 then error("x") else .a |= . + 1 end')
        add("1file/toml", [b"a = 1\n[b]\nc = \"x\"\n"], ".a |= . + 1", fmt="toml")
        add("2files/empty-output-then-incr", [inputs["tiny"], inputs["tiny"]], "if input_filename | test(\"f0\") then empty else .a |= . + 1 end")
    if tier == "quick":
        keep = {"1file/identity/tiny", "1file/incr/tiny", "1file/shrink/two", "1file/empty/tiny", "1file/err0/tiny", "1file/err1/two", "1file/halt1/tiny", "1file/second_fails/two", "1file/incr/empty",
                "1file/parse-error-at-1", "1file/identity/mode444", "1file/incr/abs", "1file/incr/-C", "2files/second-fails", "2files/incr", "1file/incr/mode666-umask022", "1file/incr/mode644-umask077"}
        S = [sc for sc in S if sc["name"] in keep]
    return S

def setup(sc, d):
    """create the files of a scenario in directory d; returns (argv paths, absolute paths)"""
    paths, abss = [], []
    for i, data in enumerate(sc["files"]):
        ext = {"yaml": ".yaml", "toml": ".toml"}.get(sc["fmt"], ".json")
        name = f"f{i}{ext}"
        if sc["form"] == "subdir":
            os.makedirs(os.path.join(d, "sub"), exist_ok=True)
            rel = os.path.join("sub", name)
        else:
            rel = name
        p = os.path.join(d, rel)
        with open(p, "wb") as f: f.write(data)
        os.chmod(p, sc["mode"])
        abss.append(p)
        paths.append({"rel": rel, "dot": "./" + rel, "abs": p, "subdir": rel}[sc["form"]])
    return paths, abss

def snapshot(d):
    out = {}
    for root, _, files in os.walk(d):
        for f in files:
            p = os.path.join(root, f)
            if f.endswith(".log"): continue
            out[os.path.relpath(p, d)] = (open(p, "rb").read(), stat.S_IMODE(os.stat(p).st_mode))
    return out

def expected_outputs(sc, d):
    """per file: (bytes that the same invocation without -i prints for it, did the filter finish on it without error)"""
    res = []
    paths, abss = setup(sc, d)
    for p in paths:
        pr = subprocess.run([JAQ_FAST] + sc.get("opts", []) + [sc["filter"], p], cwd=d, stdout=subprocess.PIPE, stderr=subprocess.PIPE)
        res.append((pr.stdout, pr.returncode == 0))
    return res

def run_case(sc, exp, inject):
    """inject: None | ('kill', n) | ('fail', n, errno) | ('short', n). Returns (problems, counted, status, final_state_key)"""
    d = tempfile.mkdtemp(prefix="c18-")
    try:
        paths, abss = setup(sc, d)
        before = snapshot(d)
        log = os.path.join(d, "sysmon.log")
        cmd = [SYSMON, "--log", log, "--trigger", os.path.basename(abss[0])]
        if inject:
            if inject[0] == "kill": cmd += ["--kill-before", str(inject[1])]
            elif inject[0] == "fail": cmd += ["--fail", str(inject[1]), str(inject[2])]
            else: cmd += ["--short-write", str(inject[1])]
        cmd += ["--", JAQ_FAST, "-i"] + sc.get("opts", []) + [sc["filter"]] + paths
        subprocess.run(cmd, cwd=d, stdout=subprocess.PIPE, stderr=subprocess.PIPE, timeout=60, umask=sc.get("umask", 0o022))
        lines = open(log, errors="replace").read().splitlines()
        status = next((l for l in reversed(lines) if l.startswith(("EXIT", "SIGNAL"))), "EXIT ?")
        counted = int(next((l.split()[1] for l in reversed(lines) if l.startswith("COUNTED")), "0"))
        calls = [l for l in lines if " #" in l]
        after = snapshot(d)
        problems = []
        rels = [os.path.relpath(a, d) for a in abss]
        replaced = []
        for i, rel in enumerate(rels):
            orig = before[rel][0]
            new, finished = exp[i]
            if rel not in after:
                problems.append(f"file {rel} disappeared"); replaced.append(None); continue
            cur = after[rel][0]
            if cur == orig and cur == new:
                replaced.append(None)      # indistinguishable
            elif cur == orig:
                replaced.append(False)
            elif cur == new:
                replaced.append(True)
                if not finished:
                    problems.append(f"file {rel} was replaced although the filter did not finish on it without error")
            else:
                problems.append(f"file {rel} holds neither its original bytes nor the complete new output: {cur[:80]!r} (original {orig[:40]!r}, expected new {new[:40]!r})")
                replaced.append(None)
        # a file is replaced only if every earlier file was replaced
        seen_unreplaced = False
        for i, r in enumerate(replaced):
            if r is False: seen_unreplaced = True
            if r is True and seen_unreplaced:
                problems.append(f"file {rels[i]} was replaced although an earlier file was not")
        extra = sorted(set(after) - set(before))
        ok_status = status == "EXIT 0"
        # when removing the temporary file is itself the call that is made to fail, jaq cannot remove it
        unlink_failed = bool(inject and inject[0] == "fail" and inject[1] <= len(calls) and calls[inject[1] - 1].split()[2] in ("unlink", "unlinkat"))
        all_finished = all(f for _, f in exp)
        if ok_status:
            if not all_finished and inject is None and not sc["filter"].startswith(("halt", "., halt")) and "halt" not in sc["filter"]:
                problems.append("exit status 0 although the filter failed on some file")
            for i, rel in enumerate(rels):
                if rel in after and after[rel][1] != before[rel][1]:
                    problems.append(f"permission bits of {rel} changed from {before[rel][1]:o} to {after[rel][1]:o} after a successful run")
                if replaced[i] is False and exp[i][1] and exp[i][0] != before[rel][0] and "halt" not in sc["filter"]:
                    problems.append(f"exit status 0 but {rel} was not replaced")
            if extra and not unlink_failed: problems.append(f"temporary files left behind after completion: {extra}")
        else:
            if extra and not (inject and inject[0] == "kill") and not unlink_failed:
                problems.append(f"temporary files left behind after a failed run: {extra}")
        state_key = json.dumps([status, [r for r in replaced], extra != []])
        return problems, counted, status, state_key, calls
    finally:
        for root, dirs, files in os.walk(d):
            for x in dirs + files:
                try: os.chmod(os.path.join(root, x), 0o700)
                except OSError: pass
        shutil.rmtree(d, ignore_errors=True)

FAILABLE = ("openat", "open", "write", "renameat", "rename", "renameat2", "statx", "chmod", "fchmod", "close", "unlink", "unlinkat", "newfstatat", "fstat")
ERRNOS = (28, 13) if tier == "quick" else (5, 28, 13, 4, 30)   # EIO ENOSPC EACCES EINTR EROFS

def explore(sc):
    out = []   # (key, nontrivial, outcome, problems)
    d0 = tempfile.mkdtemp(prefix="c18x-")
    try:
        exp = expected_outputs(sc, d0)
    finally:
        shutil.rmtree(d0, ignore_errors=True)
    problems, counted, status, key, calls = run_case(sc, exp, None)
    out.append((f"{sc['name']}: no fault", True, key, problems, {"history": calls[:80]}))
    for n in range(1, counted + 1):
        pr, _, st, key, _ = run_case(sc, exp, ("kill", n))
        out.append((f"{sc['name']}: killed before call #{n}", True, key, pr, {"call": calls[n - 1] if n <= len(calls) else None}))
        name = calls[n - 1].split()[2] if n <= len(calls) else ""
        if name in FAILABLE:
            for e in ERRNOS:
                pr, _, st, key, _ = run_case(sc, exp, ("fail", n, e))
                # EINTR (4) is not a failure: the write is retried, and the run may succeed with the complete output
                if st == "EXIT 0" and name in ("write",) and e != 4:
                    pr = pr + [f"write call #{n} failed with errno {e} but the run ended with status 0"]
                out.append((f"{sc['name']}: call #{n} ({name}) fails with errno {e}", True, key, pr, {"call": calls[n - 1]}))
        if name == "write":
            pr, _, st, key, _ = run_case(sc, exp, ("short", n))
            out.append((f"{sc['name']}: short write at call #{n}", True, key, pr, {"call": calls[n - 1]}))
    return sc["name"], counted, out

if not os.path.exists(SYSMON):
    print(json.dumps({"cases": [], "violations": [{"key": "sysmon missing", "detail": {"what": "tools/sysmon was not built (setup.sh)"}}]})); sys.exit(0)
S = scenarios()
total_points = 0
done_scen = 0
with concurrent.futures.ThreadPoolExecutor(max_workers=16) as ex:
    futs = {ex.submit(explore, sc): sc for sc in S}
    for fu in concurrent.futures.as_completed(futs):
        name, counted, out = fu.result()
        done_scen += 1
        total_points += counted
        for key, nt, outcome, problems, extra in out:
            R.case(key, nt, outcome)
            R.transitions += 1
            if problems:
                R.violation(key, {"scenario": name, "problems": problems, **extra})
        if name == "1file/incr/tiny":
            R.samples.append({"scenario": name, "history": out[0][4]["history"], "runs": len(out)})
R.families["in-place fault enumeration"] = {"scenarios": len(S), "crash_points": total_points, "runs": len(R.cases), "errnos": list(ERRNOS), "distinct_final_states": len(set(c[2] for c in R.cases))}
R.bounds.append(f"{len(S)} scenarios; for each: every durable-effect system call after the first input open as kill point, every failable call x errnos {list(ERRNOS)}, every write as a short write")
R.emit()
