#!/usr/bin/env python3
"""C06: filters and data cannot make jaq touch files, network or other processes.
Every run is observed at the system-call boundary by tools/sysmon (ptrace). Allowed: what a trivial
run (`jaq -n 1`) does at start-up, read-only opens of the input files named on the command line and of
the module/data files named by import directives, read-only look-ups in the time-zone database, writes
to stdout/stderr. Everything else - any open for writing or creation, rename/link/unlink/mkdir/chmod,
any socket call, any new process, any open/stat of another path (in particular of the canary paths
that are passed as arguments and data) - is a violation.
usage: c06_syscalls.py <quick|thorough>"""
import sys, os, json, tempfile, shutil, subprocess, re, concurrent.futures
sys.path.insert(0, os.path.dirname(__file__))
from common import *

tier = sys.argv[1]
ROOT = os.environ.get("VERIF_ROOT", "/verif")
SYSMON = os.path.join(ROOT, "target", "sysmon")
VMC = os.path.join(ROOT, "harness", "target", "release", "vmc")
R = Report()

O_ACCMODE, O_CREAT, O_TRUNC, O_APPEND, O_TMPFILE = 3, 0o100, 0o1000, 0o2000, 0o20200000
MUTATORS = {"unlink", "unlinkat", "rmdir", "rename", "renameat", "renameat2", "mkdir", "mkdirat", "link", "linkat", "symlink", "symlinkat", "chmod", "fchmod", "fchmodat", "chown", "fchown", "lchown", "fchownat",
            "truncate", "ftruncate", "utimensat", "utime", "utimes", "creat", "mknod", "mknodat", "setxattr", "copy_file_range", "sendfile", "pwrite64", "fsync", "fdatasync"}
NETWORK = {"socket", "connect", "bind", "sendto", "listen", "accept"}
PROCESS = {"fork", "vfork", "clone", "clone3", "execveat", "kill"}
PATHLOOK = {"open", "openat", "openat2", "stat", "lstat", "newfstatat", "statx", "access", "faccessat", "faccessat2", "readlink", "readlinkat", "chdir", "execve"}
TZ_OK = ("/usr/share/zoneinfo", "/etc/localtime", "/etc/timezone", "/usr/lib/zoneinfo", "/usr/share/lib/zoneinfo", "/etc/zoneinfo")

def parse_log(path):
    ev = []
    for line in open(path, errors="replace"):
        m = re.match(r"^(\d+) (\d+) (\w+)(?: #\d+)?(.*)$", line.rstrip("\n"))
        if not m: continue
        name, rest = m.group(3), m.group(4)
        d = {"name": name, "raw": line.strip()[:200]}
        pm = re.search(r" path=(.*?)(?: flags=(0x[0-9a-f]+|0)| path2=(.*))?$", rest)
        if pm:
            d["path"] = pm.group(1)
            if pm.group(2): d["flags"] = int(pm.group(2), 16)
            if pm.group(3): d["path2"] = pm.group(3)
        fm = re.search(r" fd=(-?\d+)", rest)
        if fm: d["fd"] = int(fm.group(1))
        ev.append(d)
    return ev

def baseline():
    d = tempfile.mkdtemp(prefix="c06b-")
    try:
        log = os.path.join(d, "l.log")
        subprocess.run([SYSMON, "--log", log, "--", JAQ, "-n", "1"], cwd=d, stdout=subprocess.PIPE, stderr=subprocess.PIPE, stdin=subprocess.DEVNULL, timeout=60)
        return {e["path"] for e in parse_log(log) if "path" in e and e["path"]}
    finally:
        shutil.rmtree(d, ignore_errors=True)

BASE = baseline()

def judge(events, allowed_read, workdir, tz_allowed=False, in_place=None):
    """list of problems for one run. tz_allowed: the run contains a local-time or zone-name filter.
    in_place: the input file of an --in-place run (its temporary sibling jaq* may be created, written, renamed or removed)"""
    problems = []
    first_exec = True
    tmp_fds = set()
    for e in events:
        n = e["name"]
        if in_place:
            # the documented exception: a temporary file next to the input file
            p = e.get("path", "")
            is_tmp = os.path.dirname(os.path.normpath(p if os.path.isabs(p) else os.path.join(workdir, p))) == os.path.dirname(in_place) and os.path.basename(p).startswith("jaq")
            if n in ("open", "openat") and is_tmp: continue
            if n in ("rename", "renameat", "renameat2") and is_tmp and os.path.normpath(os.path.join(workdir, e.get("path2", ""))) == in_place: continue
            if n in ("unlink", "unlinkat") and is_tmp: continue
            if n in ("chmod", "fchmodat") and os.path.normpath(os.path.join(workdir, p)) == in_place: continue
            if n in ("write", "fchmod") : continue
        if n == "execve":
            if first_exec: first_exec = False; continue
            problems.append(f"starts a program: {e['raw']}"); continue
        if n in NETWORK: problems.append(f"network call: {e['raw']}"); continue
        if n in PROCESS: problems.append(f"process call: {e['raw']}"); continue
        if n in MUTATORS: problems.append(f"changes the file system: {e['raw']}"); continue
        if n in ("write", "writev") and e.get("fd") not in (1, 2): problems.append(f"writes to a descriptor other than stdout/stderr: {e['raw']}"); continue
        if n in PATHLOOK and e.get("path"):
            p = e["path"]
            flags = e.get("flags", 0)
            if n in ("open", "openat", "openat2") and (flags & O_ACCMODE or flags & (O_CREAT | O_TRUNC | O_APPEND)):
                problems.append(f"opens for writing: {e['raw']}"); continue
            ap = os.path.normpath(p if os.path.isabs(p) else os.path.join(workdir, p))
            if p in BASE or ap in BASE: continue
            if any(ap == t or ap.startswith(t + "/") for t in TZ_OK):
                if tz_allowed: continue
                problems.append(f"looks at the time-zone database although no local-time or zone-name filter is run: {e['raw']}"); continue
            if ap in allowed_read: continue
            if p == "" : continue
            problems.append(f"touches a path that is neither an input, a module, start-up nor the time-zone database: {e['raw']}")
    return problems

def run_case(key, argv, files, allowed_names, stdin=b"", env_extra=None, expect_compiles=True, tz_allowed=False, in_place=None):
    d = tempfile.mkdtemp(prefix="c06-")
    canary = os.path.join(d, "canary")
    os.makedirs(canary)
    with open(os.path.join(canary, "secret"), "w") as f: f.write("SECRET\n")
    try:
        for rel, data in files.items():
            p = os.path.join(d, rel)
            os.makedirs(os.path.dirname(p), exist_ok=True)
            with open(p, "wb") as f: f.write(data.replace(b"@D@", d.encode()))
        before = sorted(os.listdir(d)) + sorted(os.listdir(canary))
        log = os.path.join(d, "sysmon.log")
        argv = [a.replace("@D@", d) for a in argv]
        env = {"PATH": os.environ.get("PATH", ""), "HOME": os.path.join(d, "home"), "TZ": "UTC"}
        env.update(env_extra or {})
        try:
            p = subprocess.run([SYSMON, "--log", log, "--", JAQ] + argv, cwd=d, input=stdin.replace(b"@D@", d.encode()), stdout=subprocess.PIPE, stderr=subprocess.PIPE, env=env, timeout=120)
            so, se = p.stdout, p.stderr
            timed_out = False
        except subprocess.TimeoutExpired:
            timed_out, so, se = True, b"", b""
        events = parse_log(log) if os.path.exists(log) else []
        exit_line = [l for l in open(log, errors="replace") if l.startswith(("EXIT", "SIGNAL"))] if os.path.exists(log) else []
        allowed = {os.path.normpath(os.path.join(d, n)) for n in allowed_names}
        problems = judge(events, allowed, d, tz_allowed, os.path.join(d, in_place) if in_place else None)
        os.remove(log) if os.path.exists(log) else None
        after = sorted(os.listdir(d)) + sorted(os.listdir(canary))
        if exit_line and exit_line[-1].strip() == "EXIT 3" and expect_compiles: problems.append("machinery: the program of this case does not compile, nothing was executed: " + se.decode("utf-8", "replace")[:300])
        if exit_line and exit_line[-1].startswith("SIGNAL"): problems.append("the process died with " + exit_line[-1].strip())
        if after != before: problems.append(f"directory contents changed: {before} -> {after}")
        if open(os.path.join(canary, "secret")).read() != "SECRET\n": problems.append("canary file changed")
        status = next((x["raw"] for x in reversed(events) if False), "")
        return key, (len(events), timed_out), problems, {"argv": argv, "events": len(events), "timed_out": timed_out, "stdout": so.decode("utf-8", "replace")[:300], "stderr": se.decode("utf-8", "replace")[:300]}
    finally:
        shutil.rmtree(d, ignore_errors=True)

# ---------------------------------------------------------------- families

# the local-time and zone-name filters: the only ones that may consult the time-zone database
TZ_FILTERS = {"localtime", "strflocaltime", "strptime"}

def time_cases():
    """every date/time filter on well-formed inputs, one process each: only TZ_FILTERS may touch the time-zone database"""
    progs = [("gmtime", "1709209800.5 | gmtime"), ("mktime", "[2024, 1, 29, 12, 30, 0, 4, 59] | mktime"), ("todate", "1709209800 | todate"), ("fromdate", "\"2024-02-29T12:30:00Z\" | fromdate"),
             ("todateiso8601", "1709209800 | todateiso8601"), ("fromdateiso8601", "\"2024-02-29T12:30:00Z\" | fromdateiso8601"),             ("strftime", "1709209800 | strftime(\"%Y-%m-%dT%H:%M:%SZ %A %j %Z %z %s\")"), ("strftime on array", "[2024, 1, 29, 12, 30, 0, 4, 59] | strftime(\"%c\")"), ("now", "now | . > 0"),
             ("gmtime|mktime", "1709209800 | gmtime | mktime"), ("gmtime|todate", "0 | gmtime | todate"), ("strptime without zone", "\"2024-02-29T12:30:00Z\" | strptime(\"%Y-%m-%dT%H:%M:%SZ\")"),
             ("strptime with zone name", "\"10:00 CET\" | strptime(\"%H:%M %Z\")?"), ("localtime", "1709209800 | localtime"), ("strflocaltime", "1709209800 | strflocaltime(\"%H:%M %Z\")"), ("localtime|mktime", "1709209800 | localtime | mktime")]
    out = []
    for name, prog in progs:
        tz = any(f in prog for f in TZ_FILTERS)
        out.append((f"time filter: {name}", ["-n", "-c", prog], {}, [], {"tz_allowed": tz}))
    return out

def in_place_cases():
    f = {"f.json": b"{\"a\": 1}\n"}
    return [("--in-place success touches only the input file and its temporary sibling", ["-i", ".a += 1", "f.json"], f, ["f.json", "."], {"in_place": "f.json"}),
            ("--in-place with an error", ["-i", ".a, error(\"x\")", "f.json"], f, ["f.json", "."], {"in_place": "f.json"}),
            ("--in-place with halt", ["-i", ".a, halt", "f.json"], f, ["f.json", "."], {"in_place": "f.json"}),
            ("--in-place with halt_error", ["-i", ".a, (\"bye\" | halt_error(7))", "f.json"], f, ["f.json", "."], {"in_place": "f.json"}),
            ("--in-place with a canary path as data", ["-i", ".a = \"@D@/canary/secret\"", "f.json"], f, ["f.json", "."], {"in_place": "f.json"})]

def filter_list():
    out = subprocess.run([VMC, "list-filters"], stdout=subprocess.PIPE, timeout=120).stdout
    fl = json.loads(out)
    skip = {"halt", "halt_error", "repl", "tick", "bomb", "input", "inputs", "debug", "stderr", "until", "limit", "repeat", "range", "combinations", "error", "not"} | TZ_FILTERS
    return [(n, a) for n, a in fl if n not in skip]

CANARIES = ["@D@/canary/secret", "@D@/canary/new-file", "file://@D@/canary/secret", "http://127.0.0.1:9/x", "127.0.0.1:9", "$(touch @D@/canary/pwned)", "`touch @D@/canary/pwned`", "| touch @D@/canary/pwned", "; touch @D@/canary/pwned",
            "../canary/secret", "~/canary", "/etc/passwd", "/dev/tcp/127.0.0.1/9", "canary/secret\u0001x","!include @D@/canary/secret", "<!ENTITY x SYSTEM \"file://@D@/canary/secret\">"]

def native_batches():
    cases = []
    fl = filter_list()
    can = CANARIES if tier != "quick" else CANARIES[:6] + CANARIES[9:12]
    for ci, c in enumerate(can):
        for arity in (0, 1, 2, 3):
            names = [n for n, a in fl if a == arity]
            if not names: continue
            # all filters of this arity in one process; each application is isolated by try and first
            args = "" if arity == 0 else "(" + "; ".join(["$c"] * arity) + ")"
            chunks = [names[i:i + 60] for i in range(0, len(names), 60)]
            for k, ch in enumerate(chunks):
                body = ", ".join(f"(try first({n}{args}) catch \"E\")" for n in ch)
                prog = f"$c | [{body}] | length"
                progp = f"$c | [{', '.join(f'(try first(path({n}{args})) catch 0)' for n in ch)}] | length"
                progu = f"[$c] | [{', '.join(f'(try first(.[0] |= {n}{args}) catch 0)' for n in ch)}] | length"
                for mode, pr in (("value", prog), ("path", progp), ("update", progu)):
                    if tier == "quick" and mode != "value" and ci > 1: continue
                    cases.append((f"natives arity {arity} chunk {k} ({mode}) with canary {c!r}", ["-n", "--arg", "c", c, pr], {}, []))
    # the excluded ones individually
    for prog in ["\"x\" | halt_error", "halt(7)", "$c | debug, stderr | 1", "input, [inputs]", "$c | error", "first(range(3)), first(limit(2; repeat($c)))", "$c | input_filename, $ENV.HOME, env.PATH, now, localtime, mktime? , (now | strflocaltime(\"%Z\")), (\"10:00 CET\" | strptime(\"%H:%M %Z\"))?"]:
        cases.append((f"special filter: {prog}", ["-n", "--arg", "c", CANARIES[0], prog], {}, [], {"tz_allowed": any(f in prog for f in TZ_FILTERS)}))
    # the local-time and zone-name filters on canary arguments (they may consult the time-zone database, nothing else)
    for c in can[:4]:
        prog = "$c | [(try localtime catch 0), (try strflocaltime($c) catch 0), (try strptime($c) catch 0), (try (0 | strflocaltime($c)) catch 0), (try (\"x\" | strptime($c)) catch 0)] | length"
        cases.append((f"time-zone filters with canary {c!r}", ["-n", "--arg", "c", c, prog], {}, [], {"tz_allowed": True}))
    return cases

ADVERSARIAL = {
    "yaml": [b"a: !!python/object/apply:os.system ['touch @D@/canary/pwned']\n", b"a: !include @D@/canary/secret\n", b"a: &x [1, *x]\n", b"- &a [1]\n- *a\n- !!binary aGk=\n", b"%TAG ! tag:example.com,2000:\n--- !foo bar\n", b"a: !<file://@D@/canary/secret> x\n", b"<<: *nope\n"],
    "xml": [b"<?xml version=\"1.0\"?><!DOCTYPE a [<!ENTITY x SYSTEM \"file://@D@/canary/secret\">]><a>&x;</a>", b"<!DOCTYPE a SYSTEM \"http://127.0.0.1:9/x.dtd\"><a/>", b"<a xmlns:xi=\"http://www.w3.org/2001/XInclude\"><xi:include href=\"@D@/canary/secret\" parse=\"text\"/></a>",
            b"<?xml-stylesheet href=\"@D@/canary/secret\"?><a/>", b"<!DOCTYPE a [<!ENTITY % p SYSTEM \"file://@D@/canary/secret\"> %p;]><a/>", b"<a><![CDATA[@D@/canary/secret]]></a>"],
    "toml": [b"a = \"@D@/canary/secret\"\n[include]\npath = \"@D@/canary/secret\"\n", b"a = 1979-05-27T07:32:00Z\n"],
    "json": [b"{\"$ref\": \"file://@D@/canary/secret\", \"include\": \"@D@/canary/secret\"}", b"[1, 2"],
    "csv": [b"=cmd|' /C calc'!A0,@D@/canary/secret\n", b"a,\"b\nc\"\n"],
    "tsv": [b"a\t@D@/canary/secret\n"],
    "raw": [b"@D@/canary/secret\n"],
    "cbor": [bytes.fromhex("d8207468747470733a2f2f3132372e302e302e313a392f"), bytes.fromhex("d9d9f7a1616101"), bytes.fromhex("c24100"), bytes.fromhex("d81843010203")],
}
EXT = {"yaml": "yaml", "xml": "xml", "toml": "toml", "json": "json", "csv": "csv", "tsv": "tsv", "raw": "txt", "cbor": "cbor"}

def decoder_cases():
    cases = []
    for fmt, docs in ADVERSARIAL.items():
        for i, doc in enumerate(docs):
            name = f"doc.{EXT[fmt]}"
            # as an input file (format from --from), then every writer
            cases.append((f"decoder {fmt} document {i} as input file", ["--from", fmt, "[., (.. | strings)]", name], {name: doc}, [name]))
            if tier != "quick" or i == 0:
                for to in ("json", "yaml", "toml", "xml", "csv", "tsv", "raw", "cbor"):
                    cases.append((f"decoder {fmt} document {i} written as {to}", ["--from", fmt, "--to", to, ".", name], {name: doc}, [name]))
            # through the filter (text formats), with the document as --rawfile (loaded before execution)
            if fmt not in ("cbor", "raw"):
                cases.append((f"from{fmt} on document {i}", ["-n", "--rawfile", "d", name, f"$d | try from{fmt} catch \"E\" | [.. | strings | ., (try from{fmt} catch 0)] | length"], {name: doc}, [name]))
    return cases

def module_cases():
    files = {"lib/m.jq": b"import \"d\" as $d; def f: [$d, input_filename, $__loc__?];\n".replace(b", $__loc__?", b""), "lib/d.json": b"\"@D@/canary/secret\"\n", "in.json": b"\"@D@/canary/secret\" \"x\"\n", "prog.jq": b"include \"m\" {search: \"lib\"}; [f, .]\n"}
    allowed = ["lib/m.jq", "lib/d.json", "in.json", "prog.jq", "lib", "home", "home/.jq"]
    return [("modules and data named by directives, input named on the command line", ["-L", "lib", "-f", "prog.jq", "in.json"], files, allowed),
            ("slurpfile/rawfile named on the command line", ["-n", "--slurpfile", "s", "in.json", "--rawfile", "r", "in.json", "[$s, $r] | length"], files, allowed),
            ("a string that looks like an import is data", ["-n", "\"import \\\"@D@/canary/secret\\\" as $x;\" | ., (try fromjson catch 0)"], files, allowed)]

cases = native_batches() + decoder_cases() + module_cases() + time_cases() + in_place_cases()
with concurrent.futures.ThreadPoolExecutor(max_workers=16) as ex:
    futs = [ex.submit(run_case, *c[:4], **(c[4] if len(c) > 4 else {})) for c in cases]
    for fu in concurrent.futures.as_completed(futs):
        key, outcome, problems, detail = fu.result()
        R.case(key, True, str(outcome[0] // 10))
        R.transitions += outcome[0]
        if outcome[1]:
            R.capped.append(f"timed out (not judged as a violation): {key}")
        if problems:
            detail["problems"] = problems[:10]
            R.violation(key, detail)
R.families["system-call observation"] = {"runs": len(cases), "system_calls_judged": R.transitions, "filters": len(filter_list()), "canaries": len(CANARIES), "baseline_paths": len(BASE)}
R.bounds.append(f"{len(cases)} monitored runs: every native filter and definition (arity 0..3; value, path and update position) applied to canary paths/URLs/commands, adversarial documents per decoder as input file, through every writer and through the from* filters, module/data loading")
R.samples.append({"canaries": CANARIES, "baseline_paths": sorted(BASE)[:20]})
R.emit()
