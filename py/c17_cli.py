#!/usr/bin/env python3
"""C17: the command line prints each output once, in order, and reports the true outcome.
An executable model of the command line (docs/cli.dj): input streams split over files or stdin,
the main loop and `input`/`inputs` sharing one iterator per file, output options, variable options,
exit status. Every configuration of a bounded product is run through the real binary; stdout bytes
and exit status must equal the model's.
usage: c17_cli.py <quick|thorough>"""
import sys, os, re, json, tempfile, shutil, subprocess, itertools, concurrent.futures
sys.path.insert(0, os.path.dirname(__file__))
from common import *

tier = sys.argv[1]
R = Report()

# ---------------------------------------------------------------- values and printing (model)

def dumps(v, opts):
    """the JSON text of a value under the output options"""
    def sort(v):
        if isinstance(v, dict): return {k: sort(v[k]) for k in sorted(v, key=lambda s: s.encode("utf-8"))}
        if isinstance(v, list): return [sort(x) for x in v]
        return v
    if opts.get("S"): v = sort(v)
    if opts.get("c"):
        return json.dumps(v, ensure_ascii=False, separators=(",", ":"))
    indent = "\t" if opts.get("tab") else " " * opts.get("indent", 2)
    return pretty(v, indent, 0)

def pretty(v, ind, lvl):
    if isinstance(v, list):
        if not v: return "[]"
        inner = (",\n").join(ind * (lvl + 1) + pretty(x, ind, lvl + 1) for x in v)
        return "[\n" + inner + "\n" + ind * lvl + "]"
    if isinstance(v, dict):
        if not v: return "{}"
        inner = (",\n").join(ind * (lvl + 1) + json.dumps(k, ensure_ascii=False) + ": " + pretty(x, ind, lvl + 1) for k, x in v.items())
        return "{\n" + inner + "\n" + ind * lvl + "}"
    return json.dumps(v, ensure_ascii=False)

class Stop(Exception):
    def __init__(self, code): self.code = code

def emit(v, opts, out):
    """append one output value to stdout under the output options; may raise Stop(2)"""
    raw = opts.get("r") or opts.get("raw0")
    if raw and isinstance(v, str):
        if opts.get("raw0") and "\0" in v:
            raise Stop(2)
        text = v
    else:
        text = dumps(v, opts)
    out.append(text.encode("utf-8"))
    out.append(b"\0" if opts.get("raw0") else (b"" if opts.get("j") else b"\n"))

# ---------------------------------------------------------------- input side (model)

class Inputs:
    """the input values of one file under the input options, consumed by the main loop and input/inputs"""
    def __init__(self, items):
        self.items = list(items)   # values, or ("parse-error",)
        self.pos = 0
    def next(self):
        if self.pos >= len(self.items): return None
        x = self.items[self.pos]; self.pos += 1
        return x

PARSE_ERROR = ("parse-error",)

def file_items(f, mode):
    """f = {"values": [...], "broken": bool, "text": bytes}; mode in json, slurp, raw, rawslurp, raw0"""
    if mode == "json":
        return [("v", v) for v in f["values"]] + ([PARSE_ERROR] if f["broken"] else [])
    if mode == "slurp":
        return [PARSE_ERROR] if f["broken"] else [("v", list(f["values"]))]
    text = f["text"].decode("utf-8")
    if mode == "rawslurp":
        return [("v", text)]
    if mode == "raw":
        lines = text.split("\n")
        if lines and lines[-1] == "": lines.pop()
        return [("v", l) for l in lines]
    if mode == "raw0":
        parts = text.split("\0")
        if parts and parts[-1] == "": parts.pop()
        return [("v", p) for p in parts]
    raise ValueError(mode)

# ---------------------------------------------------------------- filters: jq text + semantics in Python

class Err(Exception): pass
class Halt(Exception):
    def __init__(self, code, err=b""): self.code = code; self.err = err

def opt_input(ctx):
    """`input`: the next input of the current file as a list of 0 or 1 values (at the end it yields nothing, see stdlib.dj)"""
    x = ctx["inputs"].next()
    if x is None: return []
    if x == PARSE_ERROR: raise Err("parse error")
    return [x[1]]

def all_inputs(ctx):
    while True:
        x = ctx["inputs"].next()
        if x is None: return
        if x == PARSE_ERROR: raise Err("parse error")
        yield x[1]

def f_id(v, ctx): yield v
def f_empty(v, ctx):
    return
    yield
def f_twice(v, ctx): yield v; yield v
def f_wrap(v, ctx): yield [v]
def f_select(v, ctx):
    if v != 2: yield v
def f_err_on_2(v, ctx):
    if v == 2: raise Err("boom")
    yield v
def f_out_then_err(v, ctx):
    yield v
    raise Err("boom")
def f_input(v, ctx): yield from opt_input(ctx)
def f_pair_input(v, ctx): yield [v] + opt_input(ctx)
def f_inputs_arr(v, ctx): yield list(all_inputs(ctx))
def f_id_then_inputs(v, ctx):
    yield v
    for x in all_inputs(ctx): yield x
def f_first_inputs(v, ctx):
    x = ctx["inputs"].next()
    if x is None: return
    if x == PARSE_ERROR: raise Err("parse error")
    yield x[1]
def f_halt_on_2(v, ctx):
    if v == 2: raise Halt(0)
    yield v
def f_halt7_on_2(v, ctx):
    if v == 2: raise Halt(7)
    yield v
def f_halt_error_str(v, ctx):
    if v == 2: raise Halt(5, b"bye\n")
    yield v
def f_halt_error_obj(v, ctx):
    if v == 2: raise Halt(3, b'{"m":1}')
    yield v
def f_try_input(v, ctx):
    x = ctx["inputs"].next()
    if x is None: return
    if x == PARSE_ERROR: yield "none"; return
    yield x[1]
def f_filename(v, ctx): yield ctx["filename"]
def f_false_last(v, ctx): yield v; yield False
def f_null(v, ctx): yield None
def f_limit1_inputs(v, ctx):
    yield v
    x = ctx["inputs"].next()
    if x is None: return
    if x == PARSE_ERROR: raise Err("parse error")
    yield x[1]
def f_obj(v, ctx): yield {"b": v, "a": [v, {"d": 1, "c": []}], "é": "x\ny"}
def f_str(v, ctx): yield "s:" + (v if isinstance(v, str) else json.dumps(v, ensure_ascii=False, separators=(",", ":")))

FILTERS = [
    (".", f_id), ("empty", f_empty), (". , .", f_twice), ("[.]", f_wrap), ("select(. != 2)", f_select),
    ("if . == 2 then error(\"boom\") else . end", f_err_on_2), (". , error(\"boom\")", f_out_then_err),
    ("input", f_input), ("[., input]", f_pair_input), ("[inputs]", f_inputs_arr), (". , inputs", f_id_then_inputs), ("first(inputs)", f_first_inputs),
    ("if . == 2 then halt else . end", f_halt_on_2), ("if . == 2 then halt(7) else . end", f_halt7_on_2),
    ("if . == 2 then (\"bye\\n\" | halt_error) else . end", f_halt_error_str), ("if . == 2 then ({m: 1} | halt_error(3)) else . end", f_halt_error_obj),
    ("try input catch \"none\"", f_try_input), ("input_filename", f_filename), (". , false", f_false_last), ("null", f_null),
    (". , limit(1; inputs)", f_limit1_inputs), ("{b: ., a: [., {d: 1, c: []}], \"é\": \"x\\ny\"}", f_obj), ("\"s:\" + tostring", f_str),
]

# ---------------------------------------------------------------- the model of one invocation

def model(filt, files, inmode, null_input, opts, exit_status):
    """returns (stdout bytes, exit code, stderr bytes or None when not compared)"""
    out = []
    last = "none"   # for --exit-status
    sem = dict(FILTERS)[filt]
    def run_on(v, ctx):
        nonlocal last
        for y in sem(v, ctx):
            emit(y, opts, out)
            last = y
    try:
        for f in files:
            ctx = {"inputs": Inputs(file_items(f, inmode)), "filename": f["name"] or "<stdin>"}
            if null_input:
                run_on(None, ctx)
            else:
                while True:
                    x = ctx["inputs"].next()
                    if x is None: break
                    if x == PARSE_ERROR: raise Err("parse error")
                    run_on(x[1], ctx)
    except Err:
        return b"".join(out), 5, None
    except Halt as h:
        return b"".join(out), h.code, h.err
    except Stop as s:
        return b"".join(out), s.code, None
    if exit_status:
        if last == "none": return b"".join(out), 4, None
        if last is None or last is False: return b"".join(out), 1, None
    return b"".join(out), 0, None

# ---------------------------------------------------------------- configurations

def mkfile(name, values, broken=False, sep=" "):
    text = sep.join(json.dumps(v, ensure_ascii=False) for v in values)
    if broken: text += (sep if values else "") + "[1,"
    text += "\n"
    return {"name": name, "values": values, "broken": broken, "text": text.encode("utf-8")}

def layouts():
    L = {}
    L["stdin 1 2 3"] = [mkfile(None, [1, 2, 3])]
    L["stdin empty"] = [mkfile(None, [])]
    L["one file 1 2 3"] = [mkfile("a.json", [1, 2, 3], sep="\n")]
    L["two files 1 2 | 3"] = [mkfile("a.json", [1, 2]), mkfile("b.json", [3])]
    L["three files 1 | (empty) | 2 3"] = [mkfile("a.json", [1]), mkfile("b.json", []), mkfile("c.json", [2, 3])]
    L["two files 1 | (empty)"] = [mkfile("a.json", [1]), mkfile("b.json", [])]
    L["three files false | 2 | (empty)"] = [mkfile("a.json", [False]), mkfile("b.json", [2]), mkfile("c.json", [])]
    L["two files, first broken after 1"] = [mkfile("a.json", [1], broken=True), mkfile("b.json", [3])]
    L["one file broken after 1 2"] = [mkfile("a.json", [1, 2], broken=True)]
    L["stdin broken at 0"] = [mkfile(None, [], broken=True)]
    L["two files 1 {\"k\":[2]} | \"x\" 2 null"] = [mkfile("a.json", [1, {"k": [2]}]), mkfile("b.json", ["x", 2, None])]
    return L

INMODES = {"": ("json", False, []), "-n": ("json", True, ["-n"]), "-s": ("slurp", False, ["-s"]), "-n -s": ("slurp", True, ["-n", "-s"]), "-R": ("raw", False, ["-R"]), "-R -s": ("rawslurp", False, ["-R", "-s"]),
           "--raw-input0": ("raw0", False, ["--raw-input0"]), "--from raw": ("raw", False, ["--from", "raw"]), "--from json": ("json", False, ["--from", "json"])}
OUTOPTS = {"": ({}, []), "-c": ({"c": 1}, ["-c"]), "-r": ({"r": 1}, ["-r"]), "-j": ({"j": 1, "r": 1}, ["-j"]), "-j --to json": ({"j": 1}, ["-j", "--to", "json"]), "--to json -j": ({"j": 1}, ["--to", "json", "-j"]), "--raw-output0 -j": ({"raw0": 1}, ["--raw-output0", "-j"]), "-r -j": ({"r": 1, "j": 1}, ["-r", "-j"]), "--to json -cj": ({"j": 1, "c": 1}, ["--to", "json", "-cj"]), "-rj": ({"r": 1, "j": 1}, ["-rj"]), "-S": ({"S": 1}, ["-S"]), "-cS": ({"c": 1, "S": 1}, ["-cS"]), "--tab": ({"tab": 1}, ["--tab"]),
           "--indent 1": ({"indent": 1}, ["--indent", "1"]), "--indent 3": ({"indent": 3}, ["--indent", "3"]), "--indent 7": ({"indent": 7}, ["--indent", "7"]), "--raw-output0": ({"raw0": 1}, ["--raw-output0"]), "-M": ({}, ["-M"]),
           "--to json": ({}, ["--to", "json"]), "--to raw": ({"r": 1}, ["--to", "raw"]), "-r -c": ({"r": 1, "c": 1}, ["-r", "-c"]), "--tab -S": ({"tab": 1, "S": 1}, ["--tab", "-S"])}

def run_config(key, filt, layout, files, inkey, outkey, exit_status, use_f=False):
    inmode, null_input, inargs = INMODES[inkey]
    opts, outargs = OUTOPTS[outkey]
    d = tempfile.mkdtemp(prefix="c17-")
    try:
        stdin = b""
        names = []
        for f in files:
            if f["name"] is None:
                stdin = f["text"]
            else:
                with open(os.path.join(d, f["name"]), "wb") as fh: fh.write(f["text"])
                names.append(f["name"])
        args = list(inargs) + list(outargs) + (["-e"] if exit_status else [])
        if use_f:
            with open(os.path.join(d, "prog.jq"), "w") as fh: fh.write(filt + "\n")
            args += ["-f", "prog.jq"]
        else:
            args += [filt]
        args += names
        so, se, code = run_jaq(args, stdin=stdin, cwd=d, env={"PATH": os.environ.get("PATH", ""), "NO_COLOR": "1", "C17VAR": "env-value"})
        mso, mcode, mse = model(filt, files, inmode, null_input, opts, exit_status)
        problems = []
        if so != mso: problems.append("stdout differs")
        if code != mcode: problems.append(f"exit status {code}, expected {mcode}")
        if mse is not None and se != mse: problems.append("stderr of halt_error differs")
        if mcode == 5 and mse is None and not se: problems.append("an error ended the run but nothing was reported on stderr")
        return key, (so, code), problems, {"argv": args, "stdin": stdin.decode("utf-8", "replace"), "files": {f["name"]: f["text"].decode() for f in files if f["name"]}, "stdout": so.decode("utf-8", "replace"), "expected_stdout": mso.decode("utf-8", "replace"), "status": code, "expected_status": mcode, "stderr": se.decode("utf-8", "replace")[:300]}
    finally:
        shutil.rmtree(d, ignore_errors=True)

def configs():
    L = layouts()
    C = []
    quick = tier == "quick"
    # (a) every filter x every input mode x every layout, default output
    for (filt, _), (lname, files), inkey in itertools.product(FILTERS, L.items(), INMODES):
        if quick and (inkey in ("--from raw", "--from json", "-n -s") or lname in ("stdin empty", "one file 1 2 3", "stdin broken at 0")) and filt not in (".", "[inputs]", "input"):
            continue
        if quick and inkey in ("-R", "-R -s", "--raw-input0") and filt not in (".", "[inputs]", ". , inputs", "input", "[., input]", "input_filename"):
            continue
        C.append((f"{filt} | {inkey or 'default'} | {lname}", filt, lname, files, inkey, "", False))
    # (b) output options x -e x selected filters x two layouts
    for filt, outkey, es, lname in itertools.product([".", "[.]", "{b: ., a: [., {d: 1, c: []}], \"é\": \"x\\ny\"}", "\"s:\" + tostring", ". , false", "null", "empty", "select(. != 2)", "if . == 2 then error(\"boom\") else . end", "if . == 2 then halt(7) else . end"],
                                             OUTOPTS, (False, True), ("stdin 1 2 3", "two files 1 {\"k\":[2]} | \"x\" 2 null", "two files 1 | (empty)", "three files false | 2 | (empty)")):
        if quick and lname != "stdin 1 2 3" and outkey not in ("", "-c", "-r"):
            continue
        if lname.endswith("(empty)") and outkey != "":
            continue  # these layouts are about the exit status only
        C.append((f"{filt} | out {outkey or 'default'} | -e={es} | {lname}", filt, lname, L[lname], "", outkey, es))
    return C

# ---------------------------------------------------------------- variable options, -f, --args, exit codes (direct expectations from the manual)

def direct_cases():
    D = []
    def add(name, argv, stdin, exp_out, exp_code, files=None): D.append((name, argv, stdin, exp_out, exp_code, files or {}))
    add("--arg", ["-n", "-c", "--arg", "x", "a b", "[$x, ($x|type)]"], b"", b'["a b","string"]\n', 0)
    add("--arg twice, order", ["-n", "-c", "--arg", "x", "1", "--arg", "y", "2", "[$x, $y]"], b"", b'["1","2"]\n', 0)
    add("--arg after the filter", ["-n", "-c", "[$x]", "--arg", "x", "v"], b"", b'["v"]\n', 0)
    add("--argjson", ["-n", "-c", "--argjson", "x", '{"a":[1,2]}', "$x.a"], b"", b"[1,2]\n", 0)
    add("--argjson two values is an error", ["-n", "--argjson", "x", "1 2", "$x"], b"", b"", 5)
    add("--argjson invalid is an error", ["-n", "--argjson", "x", "{", "$x"], b"", b"", 5)
    add("--slurpfile", ["-n", "-c", "--slurpfile", "xs", "v.json", "$xs"], b"", b"[1,2,3]\n", 0, {"v.json": b"1 2 3\n"})
    add("--slurpfile empty", ["-n", "-c", "--slurpfile", "xs", "v.json", "$xs"], b"", b"[]\n", 0, {"v.json": b""})
    add("--slurpfile missing", ["-n", "--slurpfile", "xs", "nope.json", "$xs"], b"", b"", 2)
    add("--rawfile", ["-n", "-c", "--rawfile", "t", "v.txt", "[$t]"], b"", b'["line1\\nline2\\n"]\n', 0, {"v.txt": b"line1\nline2\n"})
    add("--rawfile missing", ["-n", "--rawfile", "t", "nope", "$t"], b"", b"", 2)
    add("$ARGS.named", ["-n", "-c", "--arg", "a", "1", "--argjson", "b", "2", "$ARGS.named"], b"", b'{"a":"1","b":2}\n', 0)
    add("--args", ["-n", "-c", "$ARGS.positional", "--args", "foo", "bar"], b"", b'["foo","bar"]\n', 0)
    add("--args manual example", ["$ARGS.positional", "tmp.json", "--args", "foo", "-nc", "bar", "--", "baz", "-j", "qux"], b"", b'["foo","bar","baz","-j","qux"]\n', 0, {"tmp.json": b""})
    add("--args leaves earlier files as inputs", ["-c", "[., $ARGS.positional]", "in.json", "--args", "p"], b"", b'[7,["p"]]\n', 0, {"in.json": b"7\n"})
    add("$ENV", ["-n", "-r", "$ENV.C17VAR, env.C17VAR"], b"", b"env-value\nenv-value\n", 0)
    add("input_filename stdin", ["-c", "input_filename"], b"1\n", b'"<stdin>"\n', 0)
    add("input_filename files", ["-r", "input_filename", "a.json", "b.json"], b"", b"a.json\nb.json\n", 0, {"a.json": b"1\n", "b.json": b"2\n"})
    add("-f", ["-n", "-f", "p.jq"], b"", b"42\n", 0, {"p.jq": b"2 * 21\n"})
    add("-f with inputs", ["-c", "-f", "p.jq", "in.json"], b"", b"[1]\n[2]\n", 0, {"p.jq": b"[.] # wrap\n", "in.json": b"1 2\n"})
    add("--from-file after other options", ["--from-file", "-n", "p.jq"], b"", b"42\n", 0, {"p.jq": b"2 * 21\n"})
    add("-f missing file", ["-n", "-f", "nope.jq"], b"", b"", 2)
    add("no filter = identity", [], b"1 2\n", b"1\n2\n", 0)
    add("-- ends options", ["-n", "--", "-1"], b"", b"-1\n", 0)
    add("file not found", [".", "does_not_exist.json"], b"", b"", 2)
    add("file not found after a good one", ["-c", ".", "a.json", "does_not_exist.json"], b"", b"1\n", 2, {"a.json": b"1\n"})
    add("unknown option", ["--foo"], b"", b"", 2)
    add("unknown short option", ["-Z", "."], b"", b"", 2)
    add("option missing its argument", ["-n", ".", "--arg", "x"], b"", b"", 2)
    add("--indent without number", ["-n", ".", "--indent", "x"], b"", b"", 2)
    add("compile error", ["+"], b"", b"", 3)
    add("compile error: undefined", ["-n", "nosuchfilter"], b"", b"", 3)
    add("compile error: undefined variable", ["-n", "$nosuch"], b"", b"", 3)
    add("-e empty", ["-e", "-n", "empty"], b"", b"", 4)
    add("-e false", ["-e", "-n", "false"], b"", b"false\n", 1)
    add("-e null after true", ["-e", "-n", "true, null"], b"", b"true\nnull\n", 1)
    add("-e true after null", ["-e", "-n", "null, 1"], b"", b"null\n1\n", 0)
    add("false without -e", ["-n", "false"], b"", b"false\n", 0)
    add("error", ["-n", "error"], b"", b"", 5)
    add("error after outputs", ["-n", "-c", "1, 2, error(\"x\"), 3"], b"", b"1\n2\n", 5)
    add("halt(9)", ["-n", "1, halt(9), 2"], b"", b"1\n", 9)
    add("halt", ["-n", "1, halt, 2"], b"", b"1\n", 0)
    add("halt under -e", ["-e", "-n", "false, halt"], b"", b"false\n", 0)
    add("error beats -e", ["-e", "-n", "false, error"], b"", b"false\n", 5)
    add("--raw-output0 with NUL", ["--raw-output0", "."], b'"a\\u0000b"', b"", 2)
    add("--raw-output0 NUL nested is fine", ["--raw-output0", "-c", "."], b'["a\\u0000b"]', b'["a\\u0000b"]\0', 0)
    add("--to toml non-object", ["--to", "toml", "."], b"[]", b"", 2)
    add("-s per file", ["-c", "-s", ".", "a.json", "b.json"], b"", b"[1,2]\n[3]\n", 0, {"a.json": b"1 2\n", "b.json": b"3\n"})
    add("-Rs", ["-Rs", "."], b"1 2 3\n", b'"1 2 3\\n"\n', 0)
    add("-R last line without newline", ["-R", "."], b"Hello\nWorld", b'"Hello"\n"World"\n', 0)
    add("--raw-input0", ["--raw-input0", "."], b"Hello\nWorld\0foo", b'"Hello\\nWorld"\n"foo"\n', 0)
    add("--raw-input0 -s", ["-sc", "--raw-input0", "."], b"Hello\nWorld\0foo", b'["Hello\\nWorld","foo"]\n', 0)
    add("-n ignores input", ["-n", "."], b"1 2 3", b"null\n", 0)
    add("-n first(inputs)", ["-n", "first(inputs)"], b"true true true", b"true\n", 0)
    # endless input: each output is written before the next is computed, and a consumer of a prefix ends the run
    add("endless input: -n first(inputs)", ["-n", "first(inputs)"], ("endless", "true"), b"true\n", 0)
    add("endless input: -n ignores it", ["-n", "1"], ("endless", "true"), b"1\n", 0)
    add("endless input: limit over inputs", ["-n", "-c", "[limit(3; inputs)]"], ("endless", "1"), b"[1,1,1]\n", 0)
    add("endless input: halt after the first value", ["-c", "., halt"], ("endless", "7"), b"7\n", 0)
    add("endless input: error after the first output stops the run", ["-c", "., error(\"stop\")"], ("endless", "7"), b"7\n", 5)
    add("endless input: -e with halt(1)", ["-e", "halt(1)"], ("endless", "null"), b"", 1)
    add("endless input: --raw-input first line", ["-R", "-n", "first(inputs)"], ("endless", "line"), b"\"line\"\n", 0)
    add("endless generator: limit", ["-n", "-c", "[limit(2; repeat(1))]"], b"", b"[1,1]\n", 0)
    add("endless generator: first of range", ["-n", "first(range(5; infinite))"], b"", b"5\n", 0)
    add("endless generator: label/break", ["-n", "label $l | range(0; infinite) | if . == 3 then break $l else . end"], b"", b"0\n1\n2\n", 0)
    add("-jr", ["-jr", "."], b'"Hello" " " "World" "\\n"', b"Hello World\n", 0)
    add("-j", ["-j", "."], b"true false", b"truefalse", 0)
    add("-r nested unaffected", ["-rc", "."], b'["Hello\\nWorld"]', b'["Hello\\nWorld"]\n', 0)
    add("-S", ["-cS", "."], b'{"b": {"d": 3, "c": 2}, "a": 1}', b'{"a":1,"b":{"c":2,"d":3}}\n', 0)
    add("--tab", ["--tab", "."], b"[1, [2]]", b"[\n\t1,\n\t[\n\t\t2\n\t]\n]\n", 0)
    add("-C", ["-C", "."], b"{}", b"\x1b[1;39m{\x1b[0m\x1b[1;39m}\x1b[0m\n", 0)
    add("-M", ["-M", "-c", "."], b"{}", b"{}\n", 0)
    add("combined short options", ["-nrj", "\"a\", \"b\""], b"", b"ab", 0)
    add("extension decides format", ["-c", ".", "d.yaml"], b"", b'{"a":1}\n', 0, {"d.yaml": b"a: 1\n"})
    add("--from overrides extension", ["--from", "json", "-c", ".", "d.yaml"], b"", b'{"a":1}\n', 0, {"d.yaml": b'{"a": 1}\n'})
    add("input parse error reports 5 after earlier outputs", ["-c", "."], b"1 2 [", b"1\n2\n", 5)
    add("inputs parse error", ["-n", "-c", "[inputs]"], b"1 2 }", b"", 5)
    add("input at end of input yields nothing", ["-n", "-c", "[input]"], b"", b"[]\n", 0)
    add("-j quotes strings when --to json is given", ["-j", "--to", "json", "."], b'"a" "b"', b'"a""b"', 0)
    return D

def run_endless(argv, line, cwd, env):
    """stdin is an endless stream of `line`: the run must end by itself (outputs are produced on demand)"""
    prod = subprocess.Popen(["yes", line], stdout=subprocess.PIPE, stderr=subprocess.DEVNULL)
    try:
        p = subprocess.run([JAQ] + list(argv), stdin=prod.stdout, stdout=subprocess.PIPE, stderr=subprocess.PIPE, timeout=60, env=env, cwd=cwd)
        return p.stdout, p.stderr, p.returncode
    except subprocess.TimeoutExpired:
        return b"<did not terminate within 60 s on an endless input>", b"timeout", -1
    finally:
        prod.kill(); prod.wait()

def run_direct(name, argv, stdin, exp_out, exp_code, files):
    d = tempfile.mkdtemp(prefix="c17d-")
    try:
        for n, b in files.items():
            with open(os.path.join(d, n), "wb") as fh: fh.write(b)
        env = {"PATH": os.environ.get("PATH", ""), "C17VAR": "env-value"}
        if isinstance(stdin, tuple):
            so, se, code = run_endless(argv, stdin[1], d, env)
            stdin = b"<endless: " + stdin[1].encode() + b">"
        else:
            so, se, code = run_jaq(argv, stdin=stdin, cwd=d, env=env)
        problems = []
        if so != exp_out: problems.append("stdout differs")
        if code != exp_code: problems.append(f"exit status {code}, expected {exp_code}")
        if exp_code in (2, 3, 5) and not se: problems.append("failure without a message on stderr")
        return f"direct: {name}", (so, code), problems, {"argv": argv, "stdin": stdin.decode("utf-8", "replace"), "stdout": so.decode("utf-8", "replace"), "expected_stdout": exp_out.decode("utf-8", "replace"), "status": code, "expected_status": exp_code, "stderr": se.decode("utf-8", "replace")[:300]}
    finally:
        shutil.rmtree(d, ignore_errors=True)

# ---------------------------------------------------------------- colour changes nothing but colour; outputs reach stdout before the next one is computed

SGR = re.compile(rb"\x1b\[[0-9;]*m")
COLOUR_VALUES = ["null", "[1, [2, {\"a\": []}], \"s\"]", "{\"b\": {\"d\": 3, \"c\": [2]}, \"a\": \"x\\ny\"}", "{({k: 1}): 2, ([{q: 1}]): 0, (null): [], (1): {x: {}}}", "{a: {({b: [1]}): {c: 1}}}", "[{}, [], \"\", {\"\": {}}]", "(\"bytes\" | tobytes)", "[1.5, 1e1000, nan, -0.0]"]
COLOUR_OPTS = [[], ["-c"], ["-S"], ["--tab"], ["--indent", "3"], ["-cS"], ["-r"], ["--indent", "0"]]

def run_colour(value, opts):
    key = f"colour: {value} with {' '.join(opts) or 'default options'}"
    env = {"PATH": os.environ.get("PATH", "")}
    a = subprocess.run([JAQ, "-n", "-C"] + opts + [value], stdout=subprocess.PIPE, stderr=subprocess.PIPE, env=env, timeout=60)
    b = subprocess.run([JAQ, "-n", "-M"] + opts + [value], stdout=subprocess.PIPE, stderr=subprocess.PIPE, env=env, timeout=60)
    problems = []
    if SGR.sub(b"", a.stdout) != b.stdout: problems.append("the coloured output without its colour sequences differs from the monochrome output")
    if a.returncode != b.returncode: problems.append(f"exit status {a.returncode} with -C, {b.returncode} with -M")
    if opts != ["-r"] and not SGR.search(a.stdout) and b.stdout.strip(): problems.append("-C printed no colour sequence")
    return key, (a.stdout, a.returncode), problems, {"argv": ["-n", "-C"] + opts + [value], "stdin": "", "stdout": a.stdout.decode("utf-8", "replace"), "expected_stdout": b.stdout.decode("utf-8", "replace"), "status": a.returncode, "expected_status": b.returncode, "stderr": a.stderr.decode("utf-8", "replace")[:200]}

def run_ordering(name, argv, expected, stdin=b""):
    """stdout and stderr share one pipe: what is written must appear in the order in which it is produced"""
    key = f"ordering: {name}"
    p = subprocess.run([JAQ] + argv, input=stdin, stdout=subprocess.PIPE, stderr=subprocess.STDOUT, env={"PATH": os.environ.get("PATH", ""), "NO_COLOR": "1"}, timeout=60)
    problems = [] if p.stdout == expected else ["stdout and stderr interleave differently from the order of production"]
    return key, (p.stdout, p.returncode), problems, {"argv": argv, "stdin": stdin.decode(), "stdout": p.stdout.decode("utf-8", "replace"), "expected_stdout": expected.decode(), "status": p.returncode, "expected_status": p.returncode, "stderr": ""}

def run_devfull(name, argv, wcode):
    key = f"write failure: {name}"
    with open("/dev/full", "wb") as full:
        p = subprocess.run([JAQ] + argv, stdin=subprocess.DEVNULL, stdout=full, stderr=subprocess.PIPE, env={"PATH": os.environ.get("PATH", "")}, timeout=60)
    problems = [] if p.returncode == wcode and p.stderr else [f"exit status {p.returncode} (expected {wcode}) / stderr empty: {not p.stderr}"]
    return key, (b"", p.returncode), problems, {"argv": argv, "stdin": "", "stdout": "", "expected_stdout": "", "status": p.returncode, "expected_status": wcode, "stderr": p.stderr.decode("utf-8", "replace")[:200]}

ORDERING = [
    ("outputs and stderr messages", ["-n", "-c", "1, (\"x\" | stderr | empty), 2, (\"y\" | debug | empty), 3"], b'1\nx2\n["DEBUG:", "y"]\n3\n'),
    ("output before the error message", ["-n", "-c", "1, 2, error(\"boom\")"], None),
    ("outputs per input value", ["-c", "., (tostring | stderr | empty)"], b'1\n12\n2', b"1 2"),
    ("halt_error after outputs", ["-n", "-c", "1, (\"bye\\n\" | halt_error)"], b"1\nbye\n"),
    ("pretty output and debug", ["-n", "[1], ([2] | debug | empty), [3]"], b'[\n  1\n]\n["DEBUG:", [2]]\n[\n  3\n]\n'),
]

C = configs()
D = direct_cases()
with concurrent.futures.ThreadPoolExecutor(max_workers=16) as ex:
    futs = [ex.submit(run_config, *c) for c in C] + [ex.submit(run_direct, *d) for d in D]
    futs += [ex.submit(run_colour, v, o) for v in COLOUR_VALUES for o in COLOUR_OPTS]
    for o in ORDERING:
        if o[2] is None:
            continue
        futs.append(ex.submit(run_ordering, *o))
    futs.append(ex.submit(run_devfull, "one output to a full device", ["-n", "\"x\""], 2))
    futs.append(ex.submit(run_devfull, "many outputs to a full device", ["-n", "range(100000)"], 2))
    futs.append(ex.submit(run_devfull, "raw output to a full device", ["-n", "-r", "\"x\" * 70000"], 2))
    for fu in concurrent.futures.as_completed(futs):
        key, outcome, problems, detail = fu.result()
        R.case(key, True, hashlib.sha1(repr(outcome).encode()).hexdigest()[:12])
        R.transitions += 1
        if problems:
            detail["problems"] = problems
            R.violation(key, detail)
R.families["command-line model"] = {"filters": len(FILTERS), "input_modes": len(INMODES), "layouts": len(layouts()), "output_option_sets": len(OUTOPTS), "configurations": len(C), "direct_cases": len(D)}
R.bounds.append(f"{len(C)} configurations of the product filters x input modes x stream layouts (x output options x --exit-status) and {len(D)} direct cases from the manual")
R.samples.append({"filters": [f for f, _ in FILTERS], "input_modes": list(INMODES), "layouts": list(layouts()), "output_options": list(OUTOPTS)})
R.emit()
