#!/usr/bin/env python3
"""Summarise replays/<prop>: group violation keys by their part before ' @ ' / ': ' (digits collapsed)."""
import json, glob, re, sys, collections
prop = sys.argv[1]; lim = int(sys.argv[2]) if len(sys.argv) > 2 else 8
groups = collections.OrderedDict()
for f in sorted(glob.glob(f'replays/{prop}/*.json')):
    d = json.load(open(f))
    k = d['key']
    head = re.split(r' @ |: a=| with \$', k)[0]
    head = re.sub(r'\(tick\(\d+\) \| [^)]*\)', 'I', head)
    shape = re.sub(r'-?\d+(\.\d+)?(e-?\d+)?', 'N', head)[:100]
    groups.setdefault(shape, []).append(d)
print(len(groups), 'groups,', sum(len(v) for v in groups.values()), 'violations')
for i, (s, ds) in enumerate(groups.items()):
    if i >= lim: break
    det = ds[0]["detail"]
    brief = {k: det[k] for k in ("why", "model_trace", "impl_trace", "law", "disagreements", "what") if k in det}
    print(f'[{len(ds)}] {ds[0]["key"][:130]}\n      {json.dumps(brief or det, ensure_ascii=False)[:300]}')
