#!/usr/bin/env python3
"""Summarise replays/<prop>: group violation keys by shape (digits collapsed)."""
import json, glob, re, sys, collections
prop = sys.argv[1]; lim = int(sys.argv[2]) if len(sys.argv) > 2 else 40
groups = collections.OrderedDict()
for f in sorted(glob.glob(f'replays/{prop}/*.json')):
    d = json.load(open(f))
    shape = re.sub(r'-?\d+(\.\d+)?(e-?\d+)?', 'N', d['key'])[:120]
    groups.setdefault(shape, []).append(d)
print(len(groups), 'shapes')
for i, (s, ds) in enumerate(groups.items()):
    if i >= lim: break
    print(f'[{len(ds)}] {ds[0]["key"][:160]}\n      {json.dumps(ds[0]["detail"], ensure_ascii=False)[:420]}')
