#!/usr/bin/env python3
"""Maintainer tool: store a confirmed seeded change under /verif/seeded/<id>/."""
import json, shutil, sys, os, re
sid, prop, diff, demo, txt, confirm_line, needs = sys.argv[1:8]
d = f'/verif/seeded/{sid}'
os.makedirs(d, exist_ok=True)
shutil.copy(diff, f'{d}/patch.diff'); shutil.copy(demo, f'{d}/demo.sh')
meta = {"id": sid, "breaks_property": prop, "source": "independent sub-agent given only the property text and a scratch worktree",
        "description": open(txt).read().strip()[:1500], "needs_to_manifest": needs,
        "confirmed_by_me": confirm_line, "what_i_ran": "tools/confirm_mutant.sh <scratch worktree> patch.diff demo.sh (apply, full `cargo test --workspace --no-fail-fast --offline`, demo with and without the patch)",
        "detection": []}
if os.path.exists(f'{d}/meta.json'):
    meta["detection"] = json.load(open(f'{d}/meta.json')).get("detection", [])
json.dump(meta, open(f'{d}/meta.json', 'w'), indent=1)
print('stored', sid)
