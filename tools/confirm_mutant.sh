#!/bin/bash
# tools/confirm_mutant.sh <worktree> <diff> <demo.sh> : confirm a seeded change in a scratch worktree:
# applies cleanly, full suite passes with it, demo fails with it and passes without.
WT="$1"; DIFF="$2"; DEMO="$3"
cd "$WT" || exit 2
git checkout -q -- . ; git apply --check "$DIFF" || { echo "RESULT apply=FAIL"; exit 1; }
bash "$DEMO" "$WT" >/dev/null 2>&1; clean=$?
git apply "$DIFF"
cargo test --workspace --no-fail-fast --offline > /tmp/confirm_test.$$.log 2>&1; suite=$?
ok=$(grep -c "test result: ok" /tmp/confirm_test.$$.log); failed=$(grep "test result" /tmp/confirm_test.$$.log | grep -vc " 0 failed")
bash "$DEMO" "$WT" >/dev/null 2>&1; patched=$?
git checkout -q -- .
rm -f /tmp/confirm_test.$$.log
echo "RESULT diff=$DIFF suite_exit=$suite ok_groups=$ok failing_groups=$failed demo_clean=$clean demo_patched=$patched"
