#!/usr/bin/env python3
"""Maintainer tool (never run by a check): record the violations currently under
replays/<prop>/ whose key starts with a prefix as known findings."""
import json, glob, sys
prop, prefix, what = sys.argv[1], sys.argv[2], sys.argv[3]
kf = json.load(open('known_findings.json'))
have = {(e['property'], e['key']) for e in kf['findings']}
n = 0
for f in sorted(glob.glob(f'replays/{prop}/*.json')):
    d = json.load(open(f))
    if d['key'].startswith(prefix) and (prop, d['key']) not in have:
        kf['findings'].append({'property': prop, 'key': d['key'], 'status': 'known', 'what': what})
        n += 1
json.dump(kf, open('known_findings.json', 'w'), indent=1, ensure_ascii=False)
print('added', n)
