#!/usr/bin/env python3
"""./check <id> <tier> --replay <file>: show a recorded violation and re-evaluate it where possible."""
import json, subprocess, sys
vmc, path = sys.argv[1], sys.argv[2]
d = json.load(open(path))
print(json.dumps(d, indent=1, ensure_ascii=False)[:6000])
det = d.get("detail", {})
prog = det.get("program") or det.get("printed")
inp = det.get("input")
if isinstance(prog, str) and isinstance(inp, str):
    args = [vmc, "eval", prog, inp] + [str(x) for x in det.get("inputs", [])] if isinstance(det.get("inputs", []), list) else [vmc, "eval", prog, inp]
    r = subprocess.run(args, stdout=subprocess.PIPE, stderr=subprocess.STDOUT, timeout=300)
    out = r.stdout.decode("utf-8", "replace")
    print("--- re-evaluation on the current tree")
    print(out[:4000])
    if "verdict : Same" in out or "verdict : Undecided" in out:
        sys.exit(0)
    print(f"VIOLATION property={d.get('property')} replay={path}")
    sys.exit(1)
print("--- this case is replayed by re-running the (deterministic) check: ./check %s quick" % d.get("property"))
sys.exit(0)
