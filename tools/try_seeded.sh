#!/bin/bash
# tools/try_seeded.sh <patch.diff> <check-id>... : apply a seeded change to /repo, run the quick checks, undo it.
DIFF="$1"; shift
cd /verif
git -C /repo diff --quiet || { echo "repo not clean"; exit 2; }
git -C /repo apply "$DIFF" || { echo "apply failed"; exit 2; }
for c in "$@"; do
  # run through the real entry point, but keep evidence/replays of the mutated tree out of /verif
  out=$(VERIF_OUT=/tmp/seeded_scratch ./check "$c" quick 2>/tmp/seeded_err.log); code=$?
  nv=$(echo "$out" | grep -c '^VIOLATION')
  echo "SEEDED diff=$DIFF check=$c exit=$code violations=$nv first=$(echo "$out" | grep -m1 '^VIOLATION' | cut -c1-120)"
done
git -C /repo checkout -- .
