/* sysmon: ptrace-based system call monitor and fault injector (x86_64 Linux).
 *
 *   sysmon [--log FILE] [--trigger SUBSTR] [--kill-before N] [--fail N ERRNO] [--short-write N] -- cmd args...
 *
 * Every system call of the traced process tree that touches the file system, the network or
 * processes is logged (one line: seq pid name args, paths decoded). Calls are *counted* from the
 * first open/openat whose path contains SUBSTR (or from the start when no trigger is given);
 * only calls of the "durable effect" class are counted (open, write, rename, chmod, close, ...).
 *   --kill-before N : the whole process tree is killed at the entry stop of the N-th counted call,
 *                     so that call never executes (crash point enumeration)
 *   --fail N ERRNO  : the N-th counted call is not executed and returns -ERRNO
 *   --short-write N : the N-th counted call, if a write, writes a single byte
 * The log ends with "EXIT code" or "SIGNAL n" of the initial child, and "COUNTED n".
 */
#define _GNU_SOURCE
#include <errno.h>
#include <fcntl.h>
#include <signal.h>
#include <stdio.h>
#include <stdlib.h>
#include <string.h>
#include <sys/ptrace.h>
#include <sys/syscall.h>
#include <sys/types.h>
#include <sys/user.h>
#include <sys/wait.h>
#include <unistd.h>

static FILE *logf;
static const char *trigger = NULL;
static long kill_before = -1, fail_n = -1, fail_errno = 0, short_write = -1;
static long counted = 0;
static int triggered = 0;

#define MAXP 4096
struct proc { pid_t pid; int in_syscall; int failing; } procs[MAXP];
static int nprocs = 0;
static struct proc *getp(pid_t pid) {
  for (int i = 0; i < nprocs; i++) if (procs[i].pid == pid) return &procs[i];
  if (nprocs < MAXP) { procs[nprocs].pid = pid; procs[nprocs].in_syscall = 0; procs[nprocs].failing = 0; return &procs[nprocs++]; }
  return &procs[0];
}

static void read_str(pid_t pid, unsigned long addr, char *buf, size_t n) {
  size_t i = 0;
  buf[0] = 0;
  if (!addr) { strcpy(buf, "(null)"); return; }
  while (i + 1 < n) {
    errno = 0;
    long w = ptrace(PTRACE_PEEKDATA, pid, addr + i, 0);
    if (errno) break;
    for (size_t k = 0; k < sizeof(long) && i + 1 < n; k++, i++) {
      char c = ((char *)&w)[k];
      buf[i] = c;
      if (!c) return;
    }
  }
  buf[i] = 0;
}

struct sc { long nr; const char *name; int path_arg; /* index of path argument, -1 none */ int path_arg2; int counts; };
static struct sc table[] = {
  {SYS_open, "open", 0, -1, 1}, {SYS_openat, "openat", 1, -1, 1}, {SYS_creat, "creat", 0, -1, 1},
#ifdef SYS_openat2
  {SYS_openat2, "openat2", 1, -1, 1},
#endif
  {SYS_stat, "stat", 0, -1, 1}, {SYS_lstat, "lstat", 0, -1, 1}, {SYS_newfstatat, "newfstatat", 1, -1, 1}, {SYS_statx, "statx", 1, -1, 1}, {SYS_fstat, "fstat", -1, -1, 1},
  {SYS_access, "access", 0, -1, 0}, {SYS_faccessat, "faccessat", 1, -1, 0},
#ifdef SYS_faccessat2
  {SYS_faccessat2, "faccessat2", 1, -1, 0},
#endif
  {SYS_readlink, "readlink", 0, -1, 0}, {SYS_readlinkat, "readlinkat", 1, -1, 0},
  {SYS_unlink, "unlink", 0, -1, 1}, {SYS_unlinkat, "unlinkat", 1, -1, 1}, {SYS_rmdir, "rmdir", 0, -1, 1},
  {SYS_rename, "rename", 0, 1, 1}, {SYS_renameat, "renameat", 1, 3, 1}, {SYS_renameat2, "renameat2", 1, 3, 1},
  {SYS_mkdir, "mkdir", 0, -1, 1}, {SYS_mkdirat, "mkdirat", 1, -1, 1},
  {SYS_link, "link", 0, 1, 1}, {SYS_linkat, "linkat", 1, 3, 1}, {SYS_symlink, "symlink", 0, 1, 1}, {SYS_symlinkat, "symlinkat", 0, 2, 1},
  {SYS_chmod, "chmod", 0, -1, 1}, {SYS_fchmod, "fchmod", -1, -1, 1}, {SYS_fchmodat, "fchmodat", 1, -1, 1},
  {SYS_chown, "chown", 0, -1, 1}, {SYS_fchown, "fchown", -1, -1, 1}, {SYS_lchown, "lchown", 0, -1, 1}, {SYS_fchownat, "fchownat", 1, -1, 1},
  {SYS_truncate, "truncate", 0, -1, 1}, {SYS_ftruncate, "ftruncate", -1, -1, 1},
  {SYS_utimensat, "utimensat", 1, -1, 1}, {SYS_utime, "utime", 0, -1, 1}, {SYS_utimes, "utimes", 0, -1, 1},
  {SYS_write, "write", -1, -1, 1}, {SYS_pwrite64, "pwrite64", -1, -1, 1}, {SYS_writev, "writev", -1, -1, 1},
  {SYS_read, "read", -1, -1, 0}, {SYS_pread64, "pread64", -1, -1, 0},
  {SYS_close, "close", -1, -1, 1}, {SYS_fsync, "fsync", -1, -1, 1}, {SYS_fdatasync, "fdatasync", -1, -1, 1},
  {SYS_mmap, "mmap", -1, -1, 0}, {SYS_copy_file_range, "copy_file_range", -1, -1, 1}, {SYS_sendfile, "sendfile", -1, -1, 1},
  {SYS_execve, "execve", 0, -1, 0}, {SYS_execveat, "execveat", 1, -1, 0},
  {SYS_fork, "fork", -1, -1, 0}, {SYS_vfork, "vfork", -1, -1, 0}, {SYS_clone, "clone", -1, -1, 0},
#ifdef SYS_clone3
  {SYS_clone3, "clone3", -1, -1, 0},
#endif
  {SYS_socket, "socket", -1, -1, 0}, {SYS_connect, "connect", -1, -1, 0}, {SYS_bind, "bind", -1, -1, 0}, {SYS_sendto, "sendto", -1, -1, 0}, {SYS_listen, "listen", -1, -1, 0}, {SYS_accept, "accept", -1, -1, 0},
  {SYS_kill, "kill", -1, -1, 0}, {SYS_chdir, "chdir", 0, -1, 0}, {SYS_getdents64, "getdents64", -1, -1, 0}, {SYS_mknod, "mknod", 0, -1, 1}, {SYS_mknodat, "mknodat", 1, -1, 1},
  {SYS_setxattr, "setxattr", 0, -1, 1}, {SYS_ioctl, "ioctl", -1, -1, 0},
  {-1, NULL, -1, -1, 0}};

static struct sc *lookup(long nr) {
  for (struct sc *s = table; s->name; s++) if (s->nr == nr) return s;
  return NULL;
}

static unsigned long arg(struct user_regs_struct *r, int i) {
  switch (i) { case 0: return r->rdi; case 1: return r->rsi; case 2: return r->rdx; case 3: return r->r10; case 4: return r->r8; default: return r->r9; }
}

static void kill_all(void) {
  for (int i = 0; i < nprocs; i++) kill(procs[i].pid, SIGKILL);
}

int main(int argc, char **argv) {
  int i = 1;
  logf = stderr;
  for (; i < argc; i++) {
    if (!strcmp(argv[i], "--")) { i++; break; }
    else if (!strcmp(argv[i], "--log") && i + 1 < argc) { logf = fopen(argv[++i], "w"); if (!logf) { perror("log"); return 2; } }
    else if (!strcmp(argv[i], "--trigger") && i + 1 < argc) trigger = argv[++i];
    else if (!strcmp(argv[i], "--kill-before") && i + 1 < argc) kill_before = atol(argv[++i]);
    else if (!strcmp(argv[i], "--fail") && i + 2 < argc) { fail_n = atol(argv[++i]); fail_errno = atol(argv[++i]); }
    else if (!strcmp(argv[i], "--short-write") && i + 1 < argc) short_write = atol(argv[++i]);
    else { fprintf(stderr, "sysmon: bad option %s\n", argv[i]); return 2; }
  }
  if (i >= argc) { fprintf(stderr, "usage: sysmon [options] -- cmd args...\n"); return 2; }
  if (!trigger) triggered = 1;
  pid_t child = fork();
  if (child == 0) {
    ptrace(PTRACE_TRACEME, 0, 0, 0);
    raise(SIGSTOP);
    execvp(argv[i], argv + i);
    perror("execvp");
    _exit(127);
  }
  int status;
  waitpid(child, &status, 0);
  long opts = PTRACE_O_TRACESYSGOOD | PTRACE_O_TRACEFORK | PTRACE_O_TRACEVFORK | PTRACE_O_TRACECLONE | PTRACE_O_TRACEEXEC | PTRACE_O_EXITKILL;
  ptrace(PTRACE_SETOPTIONS, child, 0, opts);
  getp(child);
  ptrace(PTRACE_SYSCALL, child, 0, 0);
  long seq = 0;
  int exit_code = -1, exit_sig = 0, have_exit = 0;
  for (;;) {
    pid_t pid = waitpid(-1, &status, __WALL);
    if (pid < 0) break;
    struct proc *p = getp(pid);
    if (WIFEXITED(status) || WIFSIGNALED(status)) {
      if (pid == child) { have_exit = 1; if (WIFEXITED(status)) exit_code = WEXITSTATUS(status); else exit_sig = WTERMSIG(status); }
      p->pid = -1;
      int alive = 0;
      for (int k = 0; k < nprocs; k++) if (procs[k].pid > 0) alive = 1;
      if (!alive) break;
      continue;
    }
    if (!WIFSTOPPED(status)) continue;
    int sig = WSTOPSIG(status);
    if (sig == (SIGTRAP | 0x80)) {
      struct user_regs_struct regs;
      if (ptrace(PTRACE_GETREGS, pid, 0, &regs) < 0) { ptrace(PTRACE_SYSCALL, pid, 0, 0); continue; }
      if (!p->in_syscall) {
        p->in_syscall = 1;
        long nr = regs.orig_rax;
        struct sc *s = lookup(nr);
        if (s) {
          char p1[512] = "", p2[512] = "";
          if (s->path_arg >= 0) read_str(pid, arg(&regs, s->path_arg), p1, sizeof p1);
          if (s->path_arg2 >= 0) read_str(pid, arg(&regs, s->path_arg2), p2, sizeof p2);
          if (!triggered && trigger && (nr == SYS_open || nr == SYS_openat) && strstr(p1, trigger)) {
            triggered = 1;
            fprintf(logf, "TRIGGER %s\n", p1);
          } else if (triggered && s->counts) {
            counted++;
          }
          int is_counted = triggered && s->counts && counted > 0;
          fprintf(logf, "%ld %d %s", ++seq, pid, s->name);
          if (is_counted) fprintf(logf, " #%ld", counted);
          if (nr == SYS_open || nr == SYS_creat) fprintf(logf, " path=%s flags=%#lx", p1, nr == SYS_creat ? (unsigned long)(O_CREAT | O_WRONLY | O_TRUNC) : arg(&regs, 1));
          else if (nr == SYS_openat) fprintf(logf, " dirfd=%ld path=%s flags=%#lx", (long)(int)arg(&regs, 0), p1, arg(&regs, 2));
          else if (s->path_arg >= 0 && s->path_arg2 >= 0) fprintf(logf, " path=%s path2=%s", p1, p2);
          else if (s->path_arg >= 0) fprintf(logf, " path=%s", p1);
          else if (nr == SYS_write || nr == SYS_pwrite64 || nr == SYS_read) fprintf(logf, " fd=%ld count=%lu", (long)(int)arg(&regs, 0), arg(&regs, 2));
          else if (nr == SYS_socket) fprintf(logf, " domain=%lu type=%lu", arg(&regs, 0), arg(&regs, 1));
          else if (nr == SYS_mmap) fprintf(logf, " fd=%ld prot=%#lx flags=%#lx", (long)(int)arg(&regs, 4), arg(&regs, 2), arg(&regs, 3));
          else fprintf(logf, " fd=%ld", (long)(int)arg(&regs, 0));
          fprintf(logf, "\n");
          fflush(logf);
          if (is_counted && counted == kill_before) {
            fprintf(logf, "KILLED before #%ld\n", counted);
            kill_all();
            continue;
          }
          if (is_counted && counted == fail_n) {
            regs.orig_rax = -1; /* skip the call */
            ptrace(PTRACE_SETREGS, pid, 0, &regs);
            p->failing = 1;
            fprintf(logf, "FAILED #%ld with errno %ld\n", counted, fail_errno);
          }
          if (is_counted && counted == short_write && (nr == SYS_write || nr == SYS_pwrite64) && arg(&regs, 2) > 1) {
            regs.rdx = 1;
            ptrace(PTRACE_SETREGS, pid, 0, &regs);
            fprintf(logf, "SHORT #%ld\n", counted);
          }
        }
      } else {
        p->in_syscall = 0;
        if (p->failing) {
          p->failing = 0;
          regs.rax = -fail_errno;
          ptrace(PTRACE_SETREGS, pid, 0, &regs);
        }
      }
      ptrace(PTRACE_SYSCALL, pid, 0, 0);
    } else if (sig == SIGTRAP && (status >> 16) != 0) {
      /* fork/clone/exec event */
      ptrace(PTRACE_SYSCALL, pid, 0, 0);
    } else if (sig == SIGSTOP && pid != child && !p->in_syscall) {
      /* new child attached */
      ptrace(PTRACE_SETOPTIONS, pid, 0, opts);
      ptrace(PTRACE_SYSCALL, pid, 0, 0);
    } else {
      ptrace(PTRACE_SYSCALL, pid, 0, sig == SIGTRAP ? 0 : sig);
    }
  }
  if (have_exit && exit_sig) fprintf(logf, "SIGNAL %d\n", exit_sig);
  else if (have_exit) fprintf(logf, "EXIT %d\n", exit_code);
  else fprintf(logf, "EXIT ?\n");
  fprintf(logf, "COUNTED %ld\n", counted);
  fflush(logf);
  return 0;
}
