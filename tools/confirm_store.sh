#!/bin/bash
# tools/confirm_store.sh <PROP> : confirm /tmp/wt-out/<PROP>/m{1,2}.* in the scratch worktree /tmp/wt/<PROP> and store confirmed ones
P="$1"; TAG="${2:-m}"
for m in 1 2; do
  out=/tmp/wt-out/$P
  [ -f $out/m$m.diff ] || { echo "$P-m$m: no diff"; continue; }
  line=$(/verif/tools/confirm_mutant.sh /tmp/wt/$P $out/m$m.diff $out/m$m.demo.sh | grep RESULT)
  echo "$P-$TAG$m $line"
  if echo "$line" | grep -q "suite_exit=0" && echo "$line" | grep -q "failing_groups=0" && echo "$line" | grep -q "demo_clean=0" && echo "$line" | grep -q "demo_patched=1"; then
    needs=$(grep -i -m1 -A3 "needs\|manifest" $out/m$m.txt | tr '\n' ' ' | cut -c1-400)
    python3 /verif/tools/store_seeded.py $P-$TAG$m $P $out/m$m.diff $out/m$m.demo.sh $out/m$m.txt "$(echo $line | sed 's/RESULT diff=[^ ]* //')" "$needs"
  else
    echo "$P-m$m NOT CONFIRMED"
  fi
done
