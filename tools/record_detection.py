#!/usr/bin/env python3
"""Maintainer tool: fold `SEEDED ...` lines of a try_seeded log into seeded/<id>/meta.json."""
import json, re, sys
note = sys.argv[2] if len(sys.argv) > 2 else ""
for line in open(sys.argv[1]):
    m = re.match(r'SEEDED diff=(\S+) check=(\S+) exit=(\d+) violations=(\d+)', line)
    if not m: continue
    diff, check, code, nv = m.groups()
    mm = re.search(r'/(C\d+)-out/(m\d+)\.diff', diff) or re.search(r'seeded/(C\d+)-((?:r\d+)?m\d+)/patch', diff)
    sid = f'{mm.group(1)}-{mm.group(2)}'
    p = f'/verif/seeded/{sid}/meta.json'
    meta = json.load(open(p))
    meta['detection'].append({"check": f"./check {check} quick", "exit": int(code), "violation_lines": int(nv), "detected": code == '1', "note": note})
    json.dump(meta, open(p, 'w'), indent=1)
print('ok')
