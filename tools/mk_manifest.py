#!/usr/bin/env python3
"""Maintainer tool: regenerate MANIFEST.json from the table below."""
import json
ALL = ["C%02d" % i for i in range(1, 21)]
MC = "model_checking"; EX = "exploration"; FE = "fault_enumeration"
CHECKS = {
 "C01": (MC, "vmc", "bounded exhaustive enumeration of programs x inputs; each model trace replayed on the real compiler+interpreter",
   "Every program of four exhaustively enumerated families (binder nests over 17 binding forms, all terms up to a node bound over a control and a value alphabet, all operator x multi-valued-operand combinations, effectful path indices) is run on every input of a fixed set; the interleaved event trace (outputs, first error/halt, effect ticks, input pulls) must equal the trace of an independent CPS reference evaluator transcribed from the manual. Exhaustive within the stated bounds, nothing beyond them.",
   "trusted: the reference evaluator/prelude (transcribed from docs/*.dj), the harness printer; built-in error messages are not compared; fold-source effects are unordered by the manual and not compared", "DESIGN.md §2 C01"),
 "C08": (MC, "vmc", "exhaustive pairs/triples over a value alphabet against a model of the documented order",
   "All ordered pairs of ~950 (quick) / ~3500 (thorough) values covering every number representation and boundary, text/byte strings and all depth-1 containers in every insertion order are compared with the six operators against an independent model order; for every equal pair 22 interchangeability laws and hash equality; all triples over a core for sort/min/max/unique/group_by/bsearch/array subtraction.",
   "trusted: model order transcribed from corelang.dj#ordering; pairs outside the property's domain are excluded by rule (NaN; |int| > 2^53 vs finite non-integer)", "DESIGN.md §2 C08"),
 "C09": (MC, "vmc", "exhaustive operand pairs against an arbitrary-precision / IEEE model; metamorphic representation pairs",
   "All ordered pairs over the C08 value set are evaluated with + - * / % and unary - and compared bit for bit with a BigInt/IEEE model written from the manual (integer exactly when both operands are integers and the operator is + - * %; null neutral; concatenation; right-biased union; recursive merge; repetition; array difference; split); 54 integer-consuming built-ins are run with n as machine integer and as n + 2^70 - 2^70 and must give identical traces.",
   "trusted: the model transcribed from corelang.dj; repetition counts > 1000 and text/byte mixtures are excluded by rule", "DESIGN.md §2 C09"),
 "C10": (MC, "vmc", "exhaustive containers x positions x programs against a list/char-sequence model; BFS over chained updates",
   "Every container (arrays 0..4, all text/byte strings up to length 3/4 over 1-4 byte characters and a lone invalid byte, null, objects with arbitrary keys) x every pair of positions (integers, null, big-integer representations, wrongly typed) x 94 read and update programs is run on the reference evaluator and on the implementation, traces must be equal; plus a breadth-first search over sequences of update operations from every small container with canonical-state dedup, comparing model and implementation at every transition.",
   "trusted: reference evaluator update rules transcribed from advanced.dj#pathless; objects compared up to key order after a deleting update", "DESIGN.md §2 C10"),
 "C20": (MC, "vmc", "exhaustive sweep of calendar days and edge products against a days-from-civil model",
   "Every day of the years -9998..9998 (thorough; quick: 1582..2400 plus marked days of every year) at two times of day through gmtime, mktime, todate, fromdate and five complete strftime/strptime formats against an independent proleptic Gregorian model; range limits, 2^31..2^64 neighbours, non-finite and non-numeric inputs must be errors; fractional epochs to the microsecond; the full product of edge field values of broken-down arrays; RFC 3339 texts with offsets and fractional digits.",
   "trusted: the calendar model (era arithmetic); complete-format round trips demanded for 4-digit years; TZ=UTC", "DESIGN.md §2 C20"),
 "C02": (MC, "vmc", "exhaustive path expressions x input trees x update filters against the reference evaluator's path and update modes; in-language laws",
   "All path expressions to depth 2 (thorough: depth 3 with one atomic side) over 30 atoms, 8 wrappers (first/last/limit/skip/definitions/closure and variable arguments/effect marker) and 4 combinators are run as path(p), path_value(p), p |= u (5 update filters), = += -= //= with multi-valued, empty and failing right-hand sides and del(p) on every input tree of depth <= 2, and compared with the reference evaluator; getpath(path(p)) against p (with the manual's rule for //); 14 derived-filter laws on every input.",
   "trusted: reference evaluator (path-based and pathless tables of advanced.dj); model values above 600 nodes are out of scope (counted as undecided)", "DESIGN.md §2 C02"),
 "C11": (MC, "vmc", "exhaustive streams x counts x laws (manual's equations evaluated in-language) plus the reference evaluator as third opinion",
   "Every stream of length <= 3 (thorough 4) over {1, 2, error} in three renderings x counts around 0 and the stream length plus 2^63, 2^70 and big-integer representations x 31 stream laws; reduce/foreach against the nested-pipe expansion generated for each concrete stream and seven (init, update, projection) triples; 21 generator laws over all argument triples (numbers, strings, arrays, null); every combinator also runs on the reference evaluator.",
   "trusted: each law is the manual's defining expansion evaluated by the same binary; error position and payload are captured as data", "DESIGN.md §2 C11"),
 "C03": (MC, "vmc", "event-trace conformance: exhaustive streams x renderings x prefix consumers x iterator drop points against the reference evaluator",
   "Every stream of length <= 3 (thorough 4) over {value, false, error, halt, input consumption, bomb, nothing}, each item behind a numbered effect marker, in four renderings (comma list, .[] over input, foreach source, filter argument) and, up to length 2 (thorough 3), in 25 further embeddings (fold update and projection, try, label, binders, definitions, recurse step, path mode incl. both sides of //) under 35 prefix consumers, with the library iterator pulled item by item and dropped after k items for every k; 24 infinite or effectful generators under 10 bounded consumers. The complete interleaved event trace (markers, input pulls, outputs, terminal event) must equal the reference evaluator's: nothing ordered after output k may run before it is delivered, nothing may be skipped. Divergence is caught by a watchdog.",
   "trusted: reference evaluator; what runs before the first pull is attributed to output 1; fold-source effects vs init are unordered (manual) and excluded", "DESIGN.md §2 C03"),
 "C12": (EX, "vmc", "exhaustive small inputs x in-language laws (manual's equations and verify blocks)",
   "All arrays of length <= 3 (thorough 4) over 9 atoms (duplicates, ties, mixed types), all small objects with arbitrary keys in every insertion order, arrays of arrays, all strings of length <= 3/4 over {a, b, comma, space}; 10 key-filter laws x 11 key filters, 36 array laws, 18 object laws, 9 array-of-array laws, 18 string laws, each evaluated on every input.",
   "trusted: the laws are written from docs/stdlib.dj and evaluated by the implementation itself (metamorphic); tie-breaks of min_by/max_by and key filters that raise errors are not demanded", "DESIGN.md §2 C12"),
 "C07": (MC, "vmc", "exhaustive values and RFC 8259 token strings; observation model + independent parser (serde_json)",
   "All text and byte strings of length <= 2 (thorough 3) over 30 structurally significant bytes, every number representation and boundary, the float grid m*10^e and 2^k with neighbours, integers to 2^200, decimal spellings and trees with arbitrary keys in every insertion order go through tojson|fromjson (same printed form, class, bits, bytes, key order; text equal to an independent model printer) and through the command line with ten output-option sets piped back in; every string of <= 4 (thorough 5) tokens over 42 RFC 8259 tokens accepted by an independent parser must be accepted with the same value, exact integers and character-for-character non-integer literals.",
   "trusted: serde_json (arbitrary_precision, preserve_order) as independent parser; the model printer for XJON; Float vs decimal-literal representation is not distinguished where observation-equal", "DESIGN.md §2 C07"),
 "C13": (MC, "vmc+py", "exhaustive strings x in-language round-trip/position laws; independent consumers (dash, Python stdlib) of every formatter",
   "All strings of length <= 2 (thorough 3) over 46 symbols (metacharacters of shell/CSV/HTML/URL, 1-4 byte characters, a lone invalid byte, NUL, entity/percent/base64/escape spellings and their tails) as text and byte strings through 20 round-trip and position laws; 211 regexes x flag subsets x all short subjects for match/capture positions, test, splits reassembly and scan; @sh (alone, on arrays, inside a format string) evaluated by dash, @csv/@tsv/@json/@html/@uri/@base64 read back by independent readers; decoders on all short inputs must not decode a part of malformed input.",
   "trusted: dash, Python csv/json/html/urllib/base64; NUL excluded for @sh; @urid passing malformed sequences through is accepted (nothing truncated)", "DESIGN.md §2 C13"),
 "C14": (MC, "vmc+py", "exhaustive placement of reserved string atoms in small trees x in-language identities; independent readers (PyYAML, tomllib, csv, minidom)",
   "98 string atoms (reserved words, indicators, number-like spellings of YAML) at every position of a depth-2 tree (root, element, nested, value, key, adjacent pairs) plus one scalar of every kind and non-string keys: to<F>|from<F> is the identity on the documented domain and an error outside it for YAML, CBOR, TOML; all rows of <= 2 (thorough 3) fields over 33 field atoms for CSV/TSV; every XML token string of <= 4 (thorough 5) tokens accepted by the reader satisfies fromxml|toxml|fromxml == fromxml; what jaq writes is read back by independent readers with the same data; --to F | --from F on the command line agrees with the filters.",
   "trusted: PyYAML BaseLoader (YAML 1.1: scalars starting with ':'/'?' and NEL/LS/PS are excluded from that reader only), tomllib, csv, minidom; documented exceptions of docs/formats.dj", "DESIGN.md §2 C14"),
 "C05": (EX, "vmc", "exhaustive sweep of argument tuples, token strings and byte strings; every case under catch_unwind in supervised child processes with overflow checks and debug assertions",
   "Every native filter and definition discovered from the current tree and 78 syntax forms (operators, comparison, indexing, slicing, assignment, deletion, construction, interpolation with every format, destructuring, folds), in value, path() and update position, x every tuple of input and arguments over a pool of ~70 (thorough ~110) boundary values (every machine-integer edge, non-finite floats, decimal literals, small integers stored as big integers, text/byte strings incl. invalid UTF-8, regex and time-format fragments, arrays, objects, depth-10 nests) (exhaustive for arity <= 1, thorough <= 2; 8 spread values for further positions); every string of <= 3 (thorough 4) tokens over 71 lexer-relevant tokens as filter text: lexed, parsed, loaded, compiled, every diagnostic rendered plain and coloured with every span checked to lie inside the text on character boundaries, accepted programs run; every string of <= 3..4 tokens over structural alphabets through the JSON, YAML, TOML, XML, CSV, TSV and base64 decoders and every byte string of length <= 2 (thorough 3) through the CBOR decoder. A panic, abort or fatal signal is a violation; the supervisor resumes after the fatal case.",
   "not a proof of panic freedom: exhaustive over the stated alphabets only; allocation failure/capacity overflow excluded as resource exhaustion; repetition counts and Bessel orders limited to |n| <= 64", "DESIGN.md §2 C05"),
 "C18": (FE, "vmc+py", "exhaustive crash-point and fault enumeration at the system-call boundary (ptrace monitor) over a scenario table; file-system invariant checked after every run",
   "For each scenario (1..3 files; larger/smaller/equal/empty output; filter error after 0/1 outputs; halt; parse error at value 0/1; failing later file; permission bits; path forms; JSON/YAML/TOML) a dry run records every file-system and write system call after the first input open; the invocation is repeated with the process tree killed before each call, with each failable call failing with each errno of {ENOSPC, EACCES} (thorough: + EIO, EINTR, EROFS), and with each write short. After every run: every input file holds its original bytes or exactly what the invocation without -i prints; replaced only if the filter finished on it and all earlier files were replaced; failed writes never end in status 0; after completion permission bits are unchanged and no temporary file remains.",
   "kill = process tree gone before a system call; power-loss page-cache tearing is out of scope (the property speaks of the process being killed); x86_64 Linux", "DESIGN.md §2 C18"),
 "C15": (MC, "vmc", "exhaustive syntax trees through an independent printer and back; exhaustive operator sequences against an independent precedence climber; exhaustive trivia placement; shorthand/expansion equivalences",
   "Every syntax tree of <= 4 (thorough 5) constructors over 10 leaves, 27 unary and 36 binary contexts (all 24 binary operators, bindings with patterns, try/catch, if/elif/else, label, def, reduce/foreach, calls, paths, objects with every key form, interpolation, formats) is printed with only the parentheses the manual's table requires, with every operand parenthesised, and without blanks, and must parse back to the same tree; every sequence of <= 3 (thorough 4) operators out of the 24 and `as $v |` written flat must parse to the grouping of an independent precedence climber; 12 kinds of trivia (blanks, newlines, CRLF, comments with the backslash rule) in every gap of ~2300 (thorough ~11000) programs; 76 shorthand/expansion pairs on 14 inputs; 188 malformed programs must be rejected.",
   "trusted: the printer's table and the climber, written from docs/corelang.dj; accept/reject of arbitrary token strings against a reference grammar is only covered by the fixed list of malformed programs", "DESIGN.md §2 C15"),
 "C17": (MC, "vmc+py", "executable model of the command line (input iterator shared by main loop and input/inputs, output options, exit status) compared with the real binary on every configuration of a bounded product",
   "23 filters with Python semantics x 9 input option sets (-n, -s, -R, -Rs, --raw-input0, --from) x 9 stream layouts (stdin or 1..3 files, empty files, parse error after k values), 10 filters x 18 output option sets x --exit-status x 2 layouts, and 68 direct cases (variable options, -f, --args, option parsing, every exit status): stdout byte-equal to the model, exit status equal, stderr non-empty on failure.",
   "trusted: the Python model and printer, written from docs/cli.dj; quick explores a sub-product (stated in the evidence), thorough the full one", "DESIGN.md §2 C17"),
}
PENDING = {}
def main():
    checks = []
    for pid in ALL:
        if pid not in CHECKS: continue
        level, engine, technique, text, note, ref = CHECKS[pid]
        checks.append({
            "property_id": pid,
            "quick_cmd": f"./check {pid} quick",
            "thorough_cmd": f"./check {pid} thorough",
            "evidence_file": f"/verif/evidence/{pid}.json",
            "replay_cmd_template": f"./check {pid} quick --replay {{path}}",
            "engine": engine,
            "level_claimed": {"category": level, "text": text, "design_ref": ref},
            "level_note": note,
            "technique": technique,
        })
    na = [{"property_id": p, "reason": PENDING.get(p, "check not built yet in this round (planned: bounded exhaustive exploration, see DESIGN.md §2); not claimed until it exists")} for p in ALL if p not in CHECKS]
    m = {
        "version": 1,
        "setup_cmd": "./setup.sh",
        "hooks": {"guard": "jaq_verif (reserved; no hooks are needed: every observation point is reachable through public API)", "enable": "none (checks build /repo unchanged)",
                  "baseline_off_cmd": "cd /repo && cargo test --workspace --no-fail-fast --offline", "source_commits": [], "add_only": True},
        "engines": [
            {"name": "py", "path": "py", "serves_properties": ["C13", "C14", "C17", "C18"], "kind_free_text": "Python 3 standard-library drivers for process-level checks and independent consumers"},
            {"name": "vmc", "path": "harness/vmc", "serves_properties": sorted(CHECKS), "kind_free_text": "Rust harness: reference model (values, terms, CPS evaluator), exhaustive enumerators, trace conformance against /repo's library API"},
        ],
        "checks": checks,
        "notes": "All checks are bounded exhaustive explorations (no sampling). known_findings.json lists recorded and fixed defects.",
        "not_applicable": na,
    }
    json.dump(m, open("MANIFEST.json", "w"), indent=1)
    print("checks:", len(checks), "not claimed:", len(na))
main()
