#!/usr/bin/env python3
"""Maintainer tool: regenerate MANIFEST.json from the table below."""
import json
ALL = ["C%02d" % i for i in range(1, 21)]
MC = "model_checking"; EX = "exploration"; FE = "fault_enumeration"
CHECKS = {
 "C01": (MC, "vmc", "bounded exhaustive enumeration of programs x inputs; each model trace replayed on the real compiler+interpreter",
   "Every program of four exhaustively enumerated families (binder nests over 17 binding forms, all terms up to a node bound over a control and a value alphabet, all operator x multi-valued-operand combinations, effectful path indices) is run on every input of a fixed set; the interleaved event trace (outputs, first error/halt, effect ticks, input pulls) must equal the trace of an independent CPS reference evaluator transcribed from the manual. Exhaustive within the stated bounds, nothing beyond them.",
   "trusted: the reference evaluator/prelude (transcribed from docs/*.dj), the harness printer; built-in error messages are not compared; fold-source effects are unordered by the manual and not compared", "DESIGN.md §2 C01"),
 "C08": (MC, "vmc", "exhaustive pairs/triples over a value alphabet against a model of the documented order",
   "All ordered pairs of ~950 (quick) / ~3500 (thorough) values covering every number representation and boundary, text/byte strings and all depth-1 containers in every insertion order are compared with the six operators against an independent model order; for every equal pair 22 interchangeability laws and hash equality; all triples over a core for sort/min/max/unique/group_by/bsearch/array subtraction.",
   "trusted: model order transcribed from corelang.dj#ordering; pairs outside the property's domain are excluded by rule (NaN; |int| > 2^53 vs finite non-integer)", "DESIGN.md §2 C08"),
}
PENDING = {}
def main():
    checks = []
    for pid in ALL:
        if pid not in CHECKS: continue
        level, engine, technique, text, note, ref = CHECKS[pid]
        checks.append({
            "property_id": pid,
            "quick_cmd": f"./check {pid} quick",
            "thorough_cmd": f"./check {pid} thorough",
            "evidence_file": f"/verif/evidence/{pid}.json",
            "replay_cmd_template": f"./check {pid} quick --replay {{path}}",
            "engine": engine,
            "level_claimed": {"category": level, "text": text, "design_ref": ref},
            "level_note": note,
            "technique": technique,
        })
    na = [{"property_id": p, "reason": PENDING.get(p, "check not built yet in this round (planned: bounded exhaustive exploration, see DESIGN.md §2); not claimed until it exists")} for p in ALL if p not in CHECKS]
    m = {
        "version": 1,
        "setup_cmd": "./setup.sh",
        "hooks": {"guard": "jaq_verif (reserved; no hooks are needed: every observation point is reachable through public API)", "enable": "none (checks build /repo unchanged)",
                  "baseline_off_cmd": "cd /repo && cargo test --workspace --no-fail-fast --offline", "source_commits": [], "add_only": True},
        "engines": [
            {"name": "vmc", "path": "harness/vmc", "serves_properties": sorted(CHECKS), "kind_free_text": "Rust harness: reference model (values, terms, CPS evaluator), exhaustive enumerators, trace conformance against /repo's library API"},
        ],
        "checks": checks,
        "notes": "All checks are bounded exhaustive explorations (no sampling). known_findings.json lists recorded and fixed defects.",
        "not_applicable": na,
    }
    json.dump(m, open("MANIFEST.json", "w"), indent=1)
    print("checks:", len(checks), "not claimed:", len(na))
main()
