//! An independent parser for jq programs (reference for C15): recursive descent over the tokens of
//! `c15::tokens`, precedence climbing with the manual's table. It produces the same tree type as
//! the conversion of jaq's parse tree (`rterm::T`), so accept/reject and the tree can be compared
//! on arbitrary token strings.
use crate::rterm::{self as rt, *};

#[derive(Clone, Debug, PartialEq)]
enum K {
    Num,
    Str,
    Var,
    Fmt,
    Field, // .ident
    Word,
    Sym,
}

fn kind(t: &str) -> K {
    let c = t.chars().next().unwrap_or(' ');
    let c2 = t.chars().nth(1);
    if c.is_ascii_digit() {
        K::Num
    } else if c == '"' {
        K::Str
    } else if c == '$' && c2.is_some() {
        K::Var
    } else if c == '@' && c2.is_some() {
        K::Fmt
    } else if c == '.' && c2.map_or(false, |x| x.is_ascii_alphabetic() || x == '_') {
        K::Field
    } else if c.is_ascii_alphabetic() || c == '_' {
        K::Word
    } else {
        K::Sym
    }
}

pub struct P {
    toks: Vec<String>,
    i: usize,
}

type R<T> = Result<T, String>;

enum O {
    B(Op),
    As(Pat),
}

impl P {
    fn peek(&self) -> Option<&str> {
        self.toks.get(self.i).map(|s| s.as_str())
    }
    fn next(&mut self) -> Option<String> {
        let t = self.toks.get(self.i).cloned();
        if t.is_some() {
            self.i += 1;
        }
        t
    }
    fn eat(&mut self, s: &str) -> bool {
        if self.peek() == Some(s) {
            self.i += 1;
            true
        } else {
            false
        }
    }
    fn just(&mut self, s: &str) -> R<()> {
        if self.eat(s) {
            Ok(())
        } else {
            Err(format!("expected {s}, found {:?}", self.peek()))
        }
    }

    fn binop(&mut self, with_comma: bool) -> R<Option<O>> {
        let Some(t) = self.peek().map(|s| s.to_string()) else { return Ok(None) };
        let op = match t.as_str() {
            "|" => Op::Pipe,
            "," if with_comma => Op::Comma,
            "=" => Op::Assign,
            "|=" => Op::Update,
            "+=" | "-=" | "*=" | "/=" | "%=" => Op::UpdateMath(t.chars().next().unwrap()),
            "//=" => Op::UpdateAlt,
            "//" => Op::Alt,
            "or" => Op::Or,
            "and" => Op::And,
            "==" => Op::Cmp("=="),
            "!=" => Op::Cmp("!="),
            "<" => Op::Cmp("<"),
            "<=" => Op::Cmp("<="),
            ">" => Op::Cmp(">"),
            ">=" => Op::Cmp(">="),
            "+" | "-" | "*" | "/" | "%" => Op::Math(t.chars().next().unwrap()),
            "as" => {
                self.i += 1;
                let p = self.pattern()?;
                self.just("|")?;
                return Ok(Some(O::As(p)));
            }
            _ => return Ok(None),
        };
        self.i += 1;
        Ok(Some(O::B(op)))
    }

    pub fn term(&mut self, with_comma: bool) -> R<T> {
        let head = self.atom()?;
        let mut atoms = vec![head];
        let mut ops = vec![];
        while let Some(o) = self.binop(with_comma)? {
            ops.push(o);
            atoms.push(self.atom()?);
        }
        let mut pos = 0;
        Ok(climb(&atoms, &ops, &mut pos, 0))
    }

    fn args(&mut self) -> R<Vec<T>> {
        if self.peek() != Some("(") {
            return Ok(vec![]);
        }
        self.i += 1;
        let mut v = vec![self.term(true)?];
        loop {
            if self.eat(")") {
                return Ok(v);
            }
            self.just(";")?;
            v.push(self.term(true)?);
        }
    }

    fn opt(&mut self) -> bool {
        let mut o = false;
        while self.eat("?") {
            o = true;
        }
        o
    }

    fn str_key(&mut self) -> R<T> {
        match self.peek().map(kind) {
            Some(K::Fmt) => {
                let f = self.next().unwrap();
                match self.peek().map(kind) {
                    Some(K::Str) => {
                        let s = self.next().unwrap();
                        Ok(T::Str(Some(f), string_parts(&s)?))
                    }
                    _ => Err("expected string after format".into()),
                }
            }
            Some(K::Str) => {
                let s = self.next().unwrap();
                Ok(T::Str(None, string_parts(&s)?))
            }
            _ => Err("expected key".into()),
        }
    }

    fn path_part_opt(&mut self) -> R<Option<(Part, bool)>> {
        if self.peek() != Some("[") {
            return Ok(None);
        }
        self.i += 1;
        let part = if self.eat("]") {
            Part::Range(None, None)
        } else if self.eat(":") {
            let t = self.term(true)?;
            self.just("]")?;
            Part::Range(None, Some(t))
        } else {
            let t = self.term(true)?;
            if self.eat(":") {
                if self.eat("]") {
                    Part::Range(Some(t), None)
                } else {
                    let u = self.term(true)?;
                    self.just("]")?;
                    Part::Range(Some(t), Some(u))
                }
            } else {
                self.just("]")?;
                Part::Index(t)
            }
        };
        let o = self.opt();
        Ok(Some((part, o)))
    }

    fn path(&mut self) -> R<Vec<(Part, bool)>> {
        let mut v = vec![];
        while let Some(p) = self.path_part_opt()? {
            v.push(p);
        }
        loop {
            match self.peek() {
                Some(".") => {
                    self.i += 1;
                    match self.path_part_opt()? {
                        Some(p) => v.push(p),
                        None => {
                            let k = self.str_key()?;
                            let o = self.opt();
                            v.push((Part::Index(k), o));
                        }
                    }
                }
                Some(t) if kind(t) == K::Field => {
                    let t = self.next().unwrap();
                    let o = self.opt();
                    v.push((Part::Index(T::Str(None, vec![SP::S(t[1..].to_string())])), o));
                }
                _ => break,
            }
            while let Some(p) = self.path_part_opt()? {
                v.push(p);
            }
        }
        Ok(v)
    }

    fn pattern(&mut self) -> R<Pat> {
        match self.peek().map(|s| s.to_string()) {
            Some(t) if kind(&t) == K::Var => {
                self.i += 1;
                Ok(Pat::Var(t))
            }
            Some(t) if t == "[" => {
                self.i += 1;
                let mut v = vec![self.pattern()?];
                loop {
                    if self.eat("]") {
                        return Ok(Pat::Arr(v));
                    }
                    self.just(",")?;
                    v.push(self.pattern()?);
                }
            }
            Some(t) if t == "{" => {
                self.i += 1;
                let mut v = vec![self.pat_entry()?];
                loop {
                    if self.eat("}") {
                        return Ok(Pat::Obj(v));
                    }
                    self.just(",")?;
                    if self.eat("}") {
                        return Ok(Pat::Obj(v)); // a trailing comma is accepted in object patterns and objects
                    }
                    v.push(self.pat_entry()?);
                }
            }
            t => Err(format!("expected pattern, found {t:?}")),
        }
    }

    fn pat_entry(&mut self) -> R<(T, Pat)> {
        let key = match self.peek().map(|s| s.to_string()) {
            Some(t) if kind(&t) == K::Var => {
                self.i += 1;
                return Ok((T::Str(None, vec![SP::S(t[1..].to_string())]), Pat::Var(t)));
            }
            Some(t) if t == "(" => {
                self.i += 1;
                let k = self.term(true)?;
                self.just(")")?;
                k
            }
            Some(t) if kind(&t) == K::Word && !t.contains("::") => {
                self.i += 1;
                T::Str(None, vec![SP::S(t)])
            }
            _ => self.str_key()?,
        };
        self.just(":")?;
        Ok((key, self.pattern()?))
    }

    fn obj_entry(&mut self) -> R<(T, Option<T>)> {
        let key = match self.peek().map(|s| s.to_string()) {
            Some(t) if t == "(" => {
                self.i += 1;
                let k = self.term(true)?;
                self.just(")")?;
                self.just(":")?;
                return Ok((k, Some(self.term(false)?)));
            }
            Some(t) if kind(&t) == K::Var => {
                self.i += 1;
                T::Var(t)
            }
            Some(t) if kind(&t) == K::Word && !t.contains("::") => {
                self.i += 1;
                T::Str(None, vec![SP::S(t)])
            }
            _ => self.str_key()?,
        };
        let v = if self.eat(":") { Some(self.term(false)?) } else { None };
        Ok((key, v))
    }

    fn def_tail(&mut self) -> R<DefD> {
        let name = match self.peek().map(|s| s.to_string()) {
            Some(t) if matches!(kind(&t), K::Word | K::Fmt) && !t.contains("::") => {
                self.i += 1;
                t
            }
            t => return Err(format!("expected name, found {t:?}")),
        };
        let mut args = vec![];
        if self.eat("(") {
            loop {
                match self.peek().map(|s| s.to_string()) {
                    Some(t) if matches!(kind(&t), K::Word | K::Var) && !t.contains("::") => {
                        self.i += 1;
                        args.push(t);
                    }
                    t => return Err(format!("expected argument, found {t:?}")),
                }
                if self.eat(")") {
                    break;
                }
                self.just(";")?;
            }
        }
        self.just(":")?;
        let body = self.term(true)?;
        self.just(";")?;
        Ok(DefD { name, args, body })
    }

    fn atom(&mut self) -> R<T> {
        let Some(t) = self.next() else { return Err("expected term, found end".into()) };
        let tm = match (kind(&t), t.as_str()) {
            (_, "-") => T::Neg(b(self.atom()?)),
            (_, "def") => {
                let mut defs = vec![self.def_tail()?];
                while self.eat("def") {
                    defs.push(self.def_tail()?);
                }
                let body = self.term(true)?;
                T::Def(defs, b(body))
            }
            (_, "if") => {
                let mut its = vec![];
                let c = self.term(true)?;
                self.just("then")?;
                its.push((c, self.term(true)?));
                let els = loop {
                    match self.next().as_deref() {
                        Some("elif") => {
                            let c = self.term(true)?;
                            self.just("then")?;
                            its.push((c, self.term(true)?));
                        }
                        Some("else") => {
                            let e = self.term(true)?;
                            self.just("end")?;
                            break Some(b(e));
                        }
                        Some("end") => break None,
                        o => return Err(format!("expected else or end, found {o:?}")),
                    }
                };
                T::If(its, els)
            }
            (_, "try") => {
                let f = self.atom()?;
                let c = if self.eat("catch") { Some(b(self.atom()?)) } else { None };
                T::Try(b(f), c)
            }
            (_, "label") => {
                let x = match self.next() {
                    Some(x) if kind(&x) == K::Var => x,
                    o => return Err(format!("expected variable, found {o:?}")),
                };
                self.just("|")?;
                T::Label(x, b(self.term(true)?))
            }
            (_, "break") => match self.next() {
                Some(x) if kind(&x) == K::Var => T::Break(x),
                o => return Err(format!("expected variable, found {o:?}")),
            },
            (_, "reduce") | (_, "foreach") => {
                let xs = self.atom()?;
                self.just("as")?;
                let p = self.pattern()?;
                let args = self.args()?;
                T::Fold(t.clone(), b(xs), p, args)
            }
            (K::Var, _) => T::Var(t.clone()),
            (K::Fmt, _) => match self.peek().map(kind) {
                Some(K::Str) => {
                    let s = self.next().unwrap();
                    T::Str(Some(t.clone()), string_parts(&s)?)
                }
                _ => T::Call(t.clone(), self.args()?),
            },
            (K::Word, _) => T::Call(t.clone(), self.args()?),
            (_, "..") => T::Recurse,
            (K::Field, _) => {
                let o = self.opt();
                let mut parts = vec![(Part::Index(T::Str(None, vec![SP::S(t[1..].to_string())])), o)];
                parts.extend(self.path()?);
                T::Path(b(T::Id), parts)
            }
            (_, ".") => {
                // `."key"` / `.@fmt "key"`; otherwise identity
                let save = self.i;
                match self.str_key() {
                    Ok(k) => {
                        let o = self.opt();
                        let mut parts = vec![(Part::Index(k), o)];
                        parts.extend(self.path()?);
                        T::Path(b(T::Id), parts)
                    }
                    Err(_) => {
                        self.i = save;
                        T::Id
                    }
                }
            }
            (K::Num, _) => T::Num(t.clone()),
            (_, "[") => {
                if self.eat("]") {
                    T::Arr(None)
                } else {
                    let f = self.term(true)?;
                    self.just("]")?;
                    T::Arr(Some(b(f)))
                }
            }
            (_, "{") => {
                if self.eat("}") {
                    T::Obj(vec![])
                } else {
                    let mut v = vec![self.obj_entry()?];
                    loop {
                        if self.eat("}") {
                            break;
                        }
                        self.just(",")?;
                        if self.eat("}") {
                            break;
                        }
                        v.push(self.obj_entry()?);
                    }
                    T::Obj(v)
                }
            }
            (_, "(") => {
                let f = self.term(true)?;
                self.just(")")?;
                f
            }
            (K::Str, _) => T::Str(None, string_parts(&t)?),
            _ => return Err(format!("expected term, found {t}")),
        };
        let tm = if self.opt() { T::Try(b(tm), None) } else { tm };
        let path = self.path()?;
        Ok(if path.is_empty() { tm } else { T::Path(b(tm), path) })
    }
}

/// grouping by the manual's table (same algorithm as the flat-operator check of C15)
fn climb(atoms: &[T], ops: &[O], pos: &mut usize, min: u8) -> T {
    let mut lhs = atoms[*pos].clone();
    while *pos < ops.len() {
        let (p, right) = match &ops[*pos] {
            O::As(_) => (2, true),
            O::B(op) => rt::prec(op),
        };
        if p < min {
            break;
        }
        let idx = *pos;
        *pos += 1;
        lhs = match &ops[idx] {
            O::As(pat) => {
                let rhs = climb(atoms, ops, pos, 0);
                T::As(b(lhs), pat.clone(), b(rhs))
            }
            O::B(op) => {
                let rhs = climb(atoms, ops, pos, if right { p } else { p + 1 });
                T::Bin(b(lhs), op.clone(), b(rhs))
            }
        };
    }
    lhs
}

/// decode a complete string literal token into parts (escapes resolved, interpolations parsed)
fn string_parts(tok: &str) -> R<Vec<SP>> {
    let c: Vec<char> = tok.chars().collect();
    if c.len() < 2 || c[0] != '"' || c[c.len() - 1] != '"' {
        return Err("unterminated string".into());
    }
    let mut parts: Vec<SP> = vec![];
    let push = |parts: &mut Vec<SP>, ch: char| match parts.last_mut() {
        Some(SP::S(s)) => s.push(ch),
        _ => parts.push(SP::S(ch.to_string())),
    };
    let mut i = 1;
    let end = c.len() - 1;
    while i < end {
        match c[i] {
            '\\' => {
                i += 1;
                if i >= end {
                    return Err("escape at end".into());
                }
                match c[i] {
                    '"' | '\\' | '/' => push(&mut parts, c[i]),
                    'b' => push(&mut parts, '\u{8}'),
                    'f' => push(&mut parts, '\u{c}'),
                    'n' => push(&mut parts, '\n'),
                    'r' => push(&mut parts, '\r'),
                    't' => push(&mut parts, '\t'),
                    'u' => {
                        let h: String = c[(i + 1).min(end)..(i + 5).min(end)].iter().collect();
                        if h.len() != 4 {
                            return Err("short unicode escape".into());
                        }
                        let n = u32::from_str_radix(&h, 16).map_err(|_| "bad unicode escape")?;
                        push(&mut parts, char::from_u32(n).ok_or("surrogate in unicode escape")?);
                        i += 4;
                    }
                    '(' => {
                        // find the matching parenthesis
                        let start = i + 1;
                        let mut depth = 1;
                        let mut j = start;
                        while j < end && depth > 0 {
                            match c[j] {
                                '(' => depth += 1,
                                ')' => depth -= 1,
                                '"' => {
                                    // nested string: skip to its end
                                    j += 1;
                                    while j < end && c[j] != '"' {
                                        if c[j] == '\\' {
                                            j += 1;
                                        }
                                        j += 1;
                                    }
                                }
                                _ => {}
                            }
                            j += 1;
                        }
                        if depth != 0 {
                            return Err("unterminated interpolation".into());
                        }
                        let inner: String = c[start..j - 1].iter().collect();
                        parts.push(SP::I(parse(&inner).ok_or("interpolation does not parse")?));
                        i = j - 1;
                    }
                    _ => return Err("bad escape".into()),
                }
            }
            ch => push(&mut parts, ch),
        }
        i += 1;
    }
    Ok(parts)
}

/// parse a complete program text (a single term); None = rejected
pub fn parse(src: &str) -> Option<T> {
    let toks = crate::c15::tokens(src);
    // what the tokeniser cannot classify (a stray quote, an unknown character) is a lexical error
    for t in &toks {
        let c = t.chars().next().unwrap();
        if t.len() == 1 && !"|,()[]{}:;?-+*/%=<>.".contains(c) && !(c.is_ascii_alphanumeric() || c == '_') {
            return None;
        }
        if c == '"' && (t.len() < 2 || !t.ends_with('"')) {
            return None;
        }
    }
    let mut p = P { toks, i: 0 };
    let t = p.term(true).ok()?;
    (p.i == p.toks.len()).then_some(t)
}
