//! C03 — streams are produced on demand; consumers of a prefix never run the rest.
//! Decided by event-trace conformance: every effect marker (tick), input pull, bomb, output and
//! terminal event of the implementation, pulled item by item, must equal the reference evaluator's
//! sequence exactly — nothing the semantics orders after output k may run before it is delivered.
use crate::c01::{check_program, Stats};
use crate::ev::{Run, Tier};
use crate::jq;
use crate::rterm::{self as rt, *};
use crate::rval::{self as rv, RVal};
use rayon::prelude::*;
use serde_json::json;

/// stream items: value, falsy value, error, halt, input consumption, bomb (must never run), nothing
const ITEMS: &[char] = &['v', 'f', 'e', 'h', 'i', 'b', 'n'];

fn item(c: char, i: i64) -> T {
    let t = tick(i);
    match c {
        'v' => pipe(t, num(i)),
        'f' => pipe(t, call0("false")),
        'e' => pipe(t, call("error", vec![strlit("e")])),
        'h' => pipe(t, call("halt", vec![num(3)])),
        'i' => pipe(t, call0("input")),
        'b' => pipe(t, call0("bomb")),
        _ => pipe(t, call0("empty")),
    }
}

fn streams(maxlen: usize) -> Vec<Vec<char>> {
    let mut out: Vec<Vec<char>> = vec![vec![]];
    let mut frontier: Vec<Vec<char>> = vec![vec![]];
    for _ in 0..maxlen {
        let mut nf = vec![];
        for s in &frontier {
            for &i in ITEMS {
                let mut s2 = s.clone();
                s2.push(i);
                nf.push(s2);
            }
        }
        out.extend(nf.iter().cloned());
        frontier = nf;
    }
    out
}

/// renderings of a stream as a jq term (input of the program: the array of item descriptors)
fn renderings(s: &[char]) -> Vec<(&'static str, T)> {
    let lit = if s.is_empty() { call0("empty") } else { s.iter().enumerate().map(|(i, c)| item(*c, i as i64 + 1)).reduce(comma).unwrap() };
    // `.[] | dispatch` over the input array of descriptors {i, k}
    let dispatch = rt::parse_with_jaq(
        "tick(.i) | if .k == \"v\" then .i elif .k == \"f\" then false elif .k == \"e\" then error(\"e\") elif .k == \"h\" then halt(3) elif .k == \"i\" then input elif .k == \"b\" then bomb else empty end",
    )
    .unwrap();
    let iter = pipe(T::Path(b(T::Id), vec![(Part::Range(None, None), false)]), dispatch);
    let fe = T::Fold("foreach".into(), b(lit.clone()), Pat::Var("$x".into()), vec![num(0), bin(T::Id, Op::Math('+'), num(1)), var("$x")]);
    let def = T::Def(vec![DefD { name: "s".into(), args: vec!["g".into()], body: call0("g") }], b(call("s", vec![lit.clone()])));
    vec![("comma-list", lit), ("iterate-input", iter), ("foreach-source", fe), ("filter-argument", def)]
}

/// the same items as path expressions (the input is the array of descriptors, so `.[i-1]` is a true
/// value and `.[9]` is null)
fn pitem(c: char, i: i64) -> String {
    match c {
        'v' => format!("(tick({i}) | .[{}])", i - 1),
        'f' => format!("(tick({i}) | .[9])"),
        'e' => format!("(tick({i}) | error(\"e\"))"),
        'h' => format!("(tick({i}) | halt(3))"),
        'i' => format!("(tick({i}) | (input | empty))"),
        'b' => format!("(tick({i}) | bomb)"),
        _ => format!("(tick({i}) | empty)"),
    }
}

/// Further places a stream can sit in: every one of them has to hand the items on one at a time.
/// (`L` = the stream as a comma list, `P` = the stream as a comma list of path expressions.)
const EMBEDDINGS: &[(&str, &str)] = &[
    ("foreach-update", "foreach 0 as $x (0; L)"),
    ("foreach-projection", "foreach 0 as $x (0; 0; L)"),
    ("foreach-update-twice", "foreach (0, 1) as $x (0; L)"),
    ("foreach-update-then-projection", "foreach 0 as $x (0; L; [., $x])"),
    ("reduce-update", "reduce 0 as $x (0; L)"),
    ("try-rethrow", "try (L) catch error"),
    ("optional", "(L)?"),
    ("label-body", "label $z | L"),
    ("as-body", "0 as $v | L"),
    ("if-branch", "if . then L else 0 end"),
    ("def-with-variable-argument", "def s($v): L; s(0)"),
    ("nested-def", "def s: def t: L; t; s"),
    ("piped-through-def", "(L) | (def i: .; i)"),
    ("limit-9", "limit(9; L)"),
    ("skip-0", "skip(0; L)"),
    ("recurse-step-once", "{a: 0} | recurse(if .a == 0 then {a: (L)} else empty end) | .a"),
    ("path", "path(P)"),
    ("path-alt-left", "path((P) // .[8])"),
    ("path-alt-right", "path(.[9] // (P))"),
    ("path-piped", "path((P) | .k)"),
    ("path-first", "path(first(P))"),
    ("path-foreach-update", "path(foreach 0 as $x (.; P))"),
    ("path-if-branch", "path(if . then P else . end)"),
    ("path_value", "path_value(P)"),
    ("getpath-of-path", "getpath(path(P))"),
];

fn embeddings(s: &[char]) -> Vec<(&'static str, T)> {
    let l = if s.is_empty() { "empty".to_string() } else { rt::show(&s.iter().enumerate().map(|(i, c)| item(*c, i as i64 + 1)).reduce(comma).unwrap()) };
    let p = if s.is_empty() { "empty".to_string() } else { s.iter().enumerate().map(|(i, c)| pitem(*c, i as i64 + 1)).collect::<Vec<_>>().join(", ") };
    EMBEDDINGS
        .iter()
        .map(|(n, tpl)| {
            let code = tpl.replace('L', &l).replace('P', &p);
            (*n, rt::parse_with_jaq(&code).unwrap_or_else(|| panic!("embedding {n}: {code}")))
        })
        .collect()
}

fn descriptors(s: &[char]) -> RVal {
    RVal::Arr(s.iter().enumerate().map(|(i, c)| RVal::Obj(vec![(rv::s("i"), rv::int(i as i64 + 1)), (rv::s("k"), rv::s(&c.to_string()))])).collect())
}

/// prefix consumers (E = the stream)
fn consumers(quick: bool) -> Vec<(String, Box<dyn Fn(T) -> T + Sync + Send>)> {
    let mut v: Vec<(String, Box<dyn Fn(T) -> T + Sync + Send>)> = vec![];
    v.push(("E".into(), Box::new(|e| e)));
    v.push(("first(E)".into(), Box::new(|e| call("first", vec![e]))));
    for k in if quick { vec![0, 1, 2] } else { vec![-1, 0, 1, 2, 3, 5] } {
        v.push((format!("limit({k}; E)"), Box::new(move |e| call("limit", vec![num(k), e]))));
        v.push((format!("[limit({k}; E)]"), Box::new(move |e| arr(call("limit", vec![num(k), e])))));
    }
    for k in if quick { vec![0, 1] } else { vec![0, 1, 2, 3] } {
        v.push((format!("nth({k}; E)"), Box::new(move |e| call("nth", vec![num(k), e]))));
        v.push((format!("skip({k}; E)"), Box::new(move |e| call("skip", vec![num(k), e]))));
    }
    v.push(("isempty(E)".into(), Box::new(|e| call("isempty", vec![e]))));
    v.push(("any(E; .)".into(), Box::new(|e| call("any", vec![e, T::Id]))));
    v.push(("all(E; .)".into(), Box::new(|e| call("all", vec![e, T::Id]))));
    v.push(("label $l | E | ., break $l".into(), Box::new(|e| T::Label("$l".into(), b(pipe(e, comma(T::Id, T::Break("$l".into()))))))));
    v.push(("label $l | E | if . == 2 then break $l else . end".into(), Box::new(|e| T::Label("$l".into(), b(pipe(e, T::If(vec![(bin(T::Id, Op::Cmp("=="), num(2)), T::Break("$l".into()))], Some(b(T::Id)))))))));
    v.push(("E // 9".into(), Box::new(|e| bin(e, Op::Alt, num(9)))));
    v.push(("first(E // 9)".into(), Box::new(|e| call("first", vec![bin(e, Op::Alt, num(9))]))));
    v.push(("first(E | (., 7))".into(), Box::new(|e| call("first", vec![pipe(e, comma(T::Id, num(7)))]))));
    v.push(("try first(E) catch \"c\"".into(), Box::new(|e| T::Try(b(call("first", vec![e])), Some(b(strlit("c")))))));
    v.push(("first(try E catch \"c\")".into(), Box::new(|e| call("first", vec![T::Try(b(e), Some(b(strlit("c"))))]))));
    v.push(("first(limit(2; E))".into(), Box::new(|e| call("first", vec![call("limit", vec![num(2), e])]))));
    v.push(("limit(1; first(E), E)".into(), Box::new(|e| call("limit", vec![num(1), comma(call("first", vec![e.clone()]), e)]))));
    v.push(("limit(2; E, E)".into(), Box::new(|e| call("limit", vec![num(2), comma(e.clone(), e)]))));
    v.push(("first(E as $x | $x, 8)".into(), Box::new(|e| call("first", vec![as_(e, Pat::Var("$x".into()), comma(var("$x"), num(8)))]))));
    v.push(("first(if E then 1 else 0 end)".into(), Box::new(|e| call("first", vec![T::If(vec![(e, num(1))], Some(b(num(0))))]))));
    v.push(("first([E][])".into(), Box::new(|e| call("first", vec![iter(arr(e))]))));
    v.push(("path(first(E))?".into(), Box::new(|e| T::Try(b(call("path", vec![call("first", vec![e])])), None))));
    v.push(("first(E + 1)".into(), Box::new(|e| call("first", vec![bin(e, Op::Math('+'), num(1))]))));
    v.push(("first({a: E})".into(), Box::new(|e| call("first", vec![T::Obj(vec![(strlit("a"), Some(e))])]))));
    v.push(("first(\"x\\(E)\")".into(), Box::new(|e| call("first", vec![T::Str(None, vec![SP::S("x".into()), SP::I(e)])]))));
    v.push(("first(E | input)".into(), Box::new(|e| call("first", vec![pipe(e, call0("input"))]))));
    v.push(("limit(1; foreach E as $x (0; . + 1))".into(), Box::new(|e| call("limit", vec![num(1), T::Fold("foreach".into(), b(e), Pat::Var("$x".into()), vec![num(0), bin(T::Id, Op::Math('+'), num(1))])]))));
    v.push(("first(reduce E as $x (0; . + 1))".into(), Box::new(|e| call("first", vec![T::Fold("reduce".into(), b(e), Pat::Var("$x".into()), vec![num(0), bin(T::Id, Op::Math('+'), num(1))])]))));
    v
}

/// infinite or effectful generators that must be consumable incrementally
const GENERATORS: &[&str] = &[
    "def g: (tick(1) | 1), g; g",
    "0 | recurse(tick(1) | . + 1)",
    "1 | repeat(tick(1) | ., (tick(2) | -.))",
    "range(tick(1) | 0; infinite; tick(2) | 1)",
    "range(0; 1; 0)",
    "foreach repeat(tick(1) | 1) as $x (0; . + $x)",
    "foreach inputs as $x (0; . + 1; [$x, .])",
    "inputs",
    "input, input",
    "[1, [2]] | ..",
    "def f: def g: (tick(1) | 2), f; (tick(2) | 1), g; f",
    "0 | while(true; tick(1) | . + 1)",
    "limit(3; repeat(tick(1) | input))",
    "(tick(1) | 1), (tick(2) | error(\"x\")), bomb",
    "(tick(1) | 1), (tick(2) | halt(5)), bomb",
    "first(inputs), bomb",
    "[.[]?] | (tick(1) | 1), (def r: r; r)",
    "1, 2, (def r: r; r)",
    "(tick(1)|1), repeat(empty)",
    "label $f | foreach inputs as $x (0; . + $x; if . > 25 then ., break $f else . end)",
    "reduce limit(2; inputs) as $x (0; . + $x), input",
    "isempty(inputs), input",
    "(inputs | select(. > 15)), bomb",
    "first(inputs | select(. > 15)), input",
];

pub fn main(tier: Tier) -> ! {
    jq::quiet_panics();
    let run = Run::new("C03", "model_checking", tier);
    let maxlen = if run.quick() { 3 } else { 4 };
    let ss = streams(maxlen);
    let cons = consumers(run.quick());
    let input_stream: Vec<RVal> = vec![rv::int(10), rv::int(20), rv::int(30), rv::int(40)];
    eprintln!("[C03] {} streams x 4 renderings x {} consumers x iterator drop points", ss.len(), cons.len());

    let st = ss
        .par_iter()
        .fold(Stats::default, |mut st, s| {
            if !run.time_left() {
                return st;
            }
            let inp = [descriptors(s)];
            for (rname, e) in renderings(s) {
                for (cname, c) in &cons {
                    if rname == "foreach-source" && cname.starts_with("path(") {
                        // the init `0` is not a path expression; whether the source is touched before
                        // that error is raised is not ordered by the manual (see C01, fold sources)
                        continue;
                    }
                    let prog = c(e.clone());
                    // the library iterator is dropped after k items, for every k up to the stream length + 1
                    // (k >= 1: the property speaks of the k-th output; what runs before the first pull is
                    // attributed to output 1)
                    for k in 1..=(s.len().min(3) + 1) {
                        check_program(&run, &mut st, rname, &prog, &inp, &input_stream, k);
                    }
                }
            }
            st
        })
        .reduce(Stats::default, Stats::merge);
    if !run.time_left() {
        run.bound_capped("streams: wall budget reached");
    } else {
        run.bound_done(format!("all streams of length <= {maxlen} over 7 item kinds x 4 renderings x {} consumers x every drop point", cons.len()));
    }
    run.family("stream x consumer", st.json());
    run.add(st.c);

    // the same streams in every other position that has to relay items lazily
    let elen = if run.quick() { 2 } else { 3 };
    let es = streams(elen);
    let st = es
        .par_iter()
        .fold(Stats::default, |mut st, s| {
            if run.elapsed() > run.deadline_s * 1.5 {
                return st;
            }
            let inp = [descriptors(s)];
            for (rname, e) in embeddings(s) {
                for (_cname, c) in &cons {
                    let prog = c(e.clone());
                    for k in 1..=(s.len().min(3) + 1) {
                        check_program(&run, &mut st, rname, &prog, &inp, &input_stream, k);
                    }
                }
            }
            st
        })
        .reduce(Stats::default, Stats::merge);
    if run.elapsed() > run.deadline_s * 1.5 {
        run.bound_capped("embedded streams: wall budget reached");
    } else {
        run.bound_done(format!("all streams of length <= {elen} x {} embeddings (fold update/projection, try, label, binders, definitions, path mode incl. both sides of //) x {} consumers x every drop point", EMBEDDINGS.len(), cons.len()));
    }
    run.family("embedded stream x consumer", st.json());
    run.add(st.c);

    // generators x consumers with explicit bounds
    let mut st = Stats::default();
    let wrappers: Vec<(&str, Box<dyn Fn(T) -> T>)> = vec![
        ("E", Box::new(|e| e)),
        ("first(E)", Box::new(|e| call("first", vec![e]))),
        ("limit(3; E)", Box::new(|e| call("limit", vec![num(3), e]))),
        ("[limit(2; E)]", Box::new(|e| arr(call("limit", vec![num(2), e])))),
        ("nth(2; E)", Box::new(|e| call("nth", vec![num(2), e]))),
        ("isempty(E)", Box::new(|e| call("isempty", vec![e]))),
        ("label $l | E | if . == 2 then break $l else . end", Box::new(|e| T::Label("$l".into(), b(pipe(e, T::If(vec![(bin(T::Id, Op::Cmp("=="), num(2)), T::Break("$l".into()))], Some(b(T::Id)))))))),
        ("first(E | select(. != 1))", Box::new(|e| call("first", vec![pipe(e, call("select", vec![bin(T::Id, Op::Cmp("!="), num(1))]))]))),
        ("any(E; . == 2)", Box::new(|e| call("any", vec![e, bin(T::Id, Op::Cmp("=="), num(2))]))),
        ("limit(2; E | (., 7))", Box::new(|e| call("limit", vec![num(2), pipe(e, comma(T::Id, num(7)))]))),
    ];
    for g in GENERATORS {
        let e = rt::parse_with_jaq(g).unwrap_or_else(|| panic!("generator {g}"));
        for (_n, w) in &wrappers {
            let prog = w(e.clone());
            for k in 1..=4 {
                check_program(&run, &mut st, "generator", &prog, &[RVal::Null], &input_stream, k);
            }
        }
    }
    run.family("generators", st.json());
    run.bound_done(format!("{} generators x {} consumers x drop points 0..4", GENERATORS.len(), wrappers.len()));
    run.add(st.c);
    run.sample(json!({"stream": "vfeb", "renderings": renderings(&['v', 'f', 'e', 'b']).iter().map(|(n, t)| format!("{n}: {}", rt::show(t))).collect::<Vec<_>>(), "input": descriptors(&['v', 'f', 'e', 'b']).to_string()}));
    run.sample(json!({"consumers": cons.iter().map(|c| c.0.clone()).collect::<Vec<_>>()}));
    run.sample(json!({"generators": GENERATORS}));

    run.finish(
        "streams: every sequence of length <= 3 (thorough 4) over the items {value, false, error, halt, input consumption, bomb, nothing}, each item preceded by a numbered effect marker, rendered as a comma list, as .[] over an input array, as a foreach source and as a filter argument, wrapped in every prefix consumer of a fixed list and pulled from the library iterator one item at a time, dropping it after k items for every k; generators (recursive definitions, recurse, repeat, range with zero step, foreach over inputs, divergent tails) under bounded consumers. The interleaved event trace (markers, input pulls, outputs, terminal event) must equal the reference evaluator's. A divergent remainder that is reached hangs the case and is reported by the watchdog as a divergence violation. non-trivial = the model trace has an output or ends in an error",
        &["built with the shipped evaluation strategy (no debug assertions)", "effects of a reduce/foreach source relative to its init are unordered by the manual and excluded (see C01)"],
    )
}
