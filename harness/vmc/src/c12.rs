//! C12 — collection built-ins obey the invariants and equations the manual states.
//! Each documented equation or invariant is one law (a jq filter yielding `true`), evaluated by the
//! implementation on every input of an exhaustively enumerated set.
use crate::ev::{h64, Counts, Run, Tier};
use crate::gen;
use crate::jq;
use crate::rval::{self as rv, RVal};
use rayon::prelude::*;
use serde_json::json;

const PRE: &str = r#"
def cap(f): [try (f | {out: .}) catch {err: 1}];
def defined(f): (try ([f] | true) catch false);
def flattens    : if isarray             then .[] | flattens       end;
def flattens($d): if isarray and $d >= 0 then .[] | flattens($d-1) end;
def runs(k): reduce .[] as $x ([]; if length > 0 and (.[-1][0] | [k]) == ($x | [k]) then .[-1] += [$x] else . + [[$x]] end);
def mcontains($x): . as $a |
  if type == "string" and ($x | type) == "string" then ($x == "" or (indices($x) | length > 0))
  elif type == "array" and ($x | type) == "array" then all($x[]; . as $v | any($a[]; mcontains($v)))
  elif type == "object" and ($x | type) == "object" then all($x | to_entries[]; .key as $k | .value as $v | ($a | has($k)) and ($a[$k] | mcontains($v)))
  else . == $x end;
def sorted: . as $a | all(range(1; length); $a[. - 1] <= $a[.]);
"#;

/// laws over arrays with a key filter KF (textual placeholder)
const KEY_LAWS: &[(&str, &str)] = &[
    ("sort_by == sort_by([f])", "cap(sort_by(KF)) == cap(sort_by([KF]))"),
    ("sort_by stable and sorted", "if defined(map([KF])) then . as $a | ([range(length)] | sort_by($a[.] | [KF])) as $i | ($i | map($a[.])) == sort_by(KF) and all(range(1; $i | length) as $j | ($a[$i[$j - 1]] | [KF]) as $k | ($a[$i[$j]] | [KF]) as $l | $k < $l or ($k == $l and $i[$j - 1] < $i[$j]); .) else true end"),
    ("sort_by permutation", "if defined(map([KF])) then (sort_by(KF) | sort) == sort and (sort_by(KF) | length) == length else true end"),
    ("group_by = runs of sort_by", "if defined(map([KF])) then group_by(KF) == (sort_by(KF) | runs(KF)) else true end"),
    ("unique_by keeps first of run", "if defined(map([KF])) then unique_by(KF) == (group_by(KF) | map(.[0])) else true end"),
    ("min_by/max_by extremal", "if defined(map([KF])) then if length == 0 then min_by(KF) == null and max_by(KF) == null else . as $a | (min_by(KF) as $m | any($a[]; . == $m) and all($a[]; [KF] >= ($m | [KF]))) and (max_by(KF) as $m | any($a[]; . == $m) and all($a[]; [KF] <= ($m | [KF]))) end else cap(min_by(KF)) == [{err: 1}] and cap(max_by(KF)) == [{err: 1}] end"),
    ("min_by == min_by([f])", "cap(min_by(KF), max_by(KF)) == cap(min_by([KF]), max_by([KF]))"),
    ("map", "cap(map(KF)) == cap([.[] | KF])"),
    ("map_values", "cap(map_values(KF)) == cap(.[] |= KF)"),
    ("any/all", "cap(any(KF), all(KF)) == cap(any(.[]; KF), all(.[]; KF))"),
];

const KEY_FILTERS: &[&str] = &[".", "empty", ".[0]?", "(., 1)", "length", "type", "(-.)?", "error", "tostring", ".a?", "(type, .)"];

const ARRAY_LAWS: &[(&str, &str)] = &[
    ("sort = sort_by(.)", "sort == sort_by(.) and (sort | sorted) and (sort | length) == length"),
    ("sort idempotent", "(sort | sort) == sort"),
    ("unique", "unique == unique_by(.) and unique == (sort | runs(.) | map(.[0])) and (unique | sorted)"),
    ("min/max", "min == min_by(.) and max == max_by(.) and (if length == 0 then min == null and max == null else min == sort[0] and max == sort[-1] end)"),
    ("group_by(.)", "(group_by(.) | add // []) == sort and all(group_by(.)[]; length > 0 and (unique | length) == 1)"),
    ("reverse", "(reverse | reverse) == . and reverse == (. as $a | [range(length) | $a[-1 - .]])"),
    ("indices scalar", ". as $a | all((.[], 0, \"a\", null, {}) as $x | if ($x | type) == \"array\" then true else indices($x) == [range($a | length) | select($a[.] == $x)] end; .)"),
    ("indices array", ". as $a | all((.[:1], .[1:], .[1:3], [.[1]?], (.[] | arrays | select(length > 0)), [0], [0, 1]) as $x | if ($x | length) == 0 then true else indices($x) == [range($a | length) | select(. as $i | $a[$i:][:$x | length] == $x)] end; .)"),
    ("indices verify", ". as $a | all((.[:1], .[1:3], [0], [\"a\", \"b\"]) as $x | all($a | indices($x)[] as $i | .[$i:][:$x | length]; . == $x); .)"),
    ("index/rindex", "all((.[], [0], 1) as $x | (if ($x | type) == \"array\" and ($x | length) == 0 then true else index($x) == (indices($x) | .[0]) and rindex($x) == (indices($x) | .[-1]) end); .)"),
    ("flatten", "flatten == [flattens] and flatten(0) == [flattens(0)] and flatten(1) == [flattens(1)] and flatten(2) == [flattens(2)]"),
    ("flatten depth", "(flatten | all(.[]; type != \"array\")) and flatten(0) == ."),
    ("contains reflexive", "contains(.) and inside(.) and contains([]) and ([] | inside(.))"),
    ("contains sub", ". as $a | all((.[:1], .[1:], [.[0]?], map(arrays), map(select(type == \"object\") | {}), (. + .), (.[:1] + .[:1] + . + .[:1]), [.[] | strings | .[:1], .[1:], .], map(arrays | . + .), map(objects | map_values(arrays | . + .)), [.[] | select(type != \"number\")] + [0, 0]) as $x | ($a | contains($x)) == ($a | mcontains($x)) and ($x | inside($a)) == ($a | contains($x)); .)"),
    ("has", ". as $a | all(range(-length; length); . as $i | $a | has($i)) and (has(length) | not) and (has(-length - 1) | not) and all(keys[]; . as $k | $a | has($k))"),
    ("in", "all(range(-1; length + 1); . as $i | in($a0) == ($a0 | has($i)))"),
    ("bsearch", "sort as $s | all(($s[], 0, \"a\", null, [0], {\"a\": 0}, 0.5, \"b\") as $x | ($s | bsearch($x)) as $i | if $i >= 0 then $s[$i] == $x else ($s | .[-$i - 1:-$i - 1] = [$x]) == ($s + [$x] | sort) and (any($s[]; . == $x) | not) end; .)"),
    ("add", "cap(add) == cap(reduce .[] as $x (null; . + $x)) and cap(add) == cap(add(.[]))"),
    ("join", "cap(join(\", \")) == cap(if length == 0 then \"\" else reduce .[1:][] as $x (\"\\(.[0])\"; . + \", \" + \"\\($x)\") end)"),
    ("first/last/nth", "first == .[0] and last == .[-1] and nth(1) == .[1] and ([first(.[])] == .[:1]) and ([last(.[])] == .[-1:])"),
    ("del", ". as $a | all(range(length); . as $i | ($a | del(.[$i])) == $a[:$i] + $a[$i + 1:]) and del(.[]) == [] and del(.[1:]) == .[:1] and del(empty) == ."),
    ("to_entries array", "to_entries == (. as $a | [range(length) | {key: ., value: $a[.]}])"),
    ("keys array", "keys == [range(length)] and keys == (keys_unsorted | sort)"),
    ("paths(p)", "[paths(type == \"number\")] == [paths as $p | select(getpath($p) | type == \"number\") | $p]"),
    ("delpaths", "cap(delpaths([[0]])) == cap(del(.[0])) and delpaths([]) == . and cap(delpaths([[0], [1]])) == cap(del(.[0]) | del(.[1])) and cap(delpaths([[1], [0]])) == cap(del(.[1]) | del(.[0]))"),
    ("walk id", "walk(.) == . and walk(if type == \"number\" then . + 1 else . end) == (.. |= (if type == \"number\" then . + 1 else . end))"),
    ("select partition", "[.[] | select(type == \"number\")] + [.[] | select(type != \"number\")] | sort == (. | sort)"),
    ("type filters", "all(.[]; . as $v | [nulls, booleans, numbers, strings, arrays, objects] == [$v] and ([isboolean, isnumber, isstring, isarray, isobject] | map(select(.)) | length) == (if $v == null then 0 else 1 end) and ([values] == (if $v == null then [] else [$v] end)) and ([iterables] + [scalars] == [$v]) and (isarray or isobject) == ([iterables] | length == 1))"),
    ("type names", "all(.[]; (type == \"null\") == (. == null) and (type == \"boolean\") == isboolean and (type == \"number\") == isnumber and (type == \"string\") == isstring and (type == \"array\") == isarray and (type == \"object\") == isobject)"),
    ("limit/first on arrays", "[limit(2; .[])] == .[:2] and [skip(1; .[])] == .[1:] and (isempty(.[]) == (length == 0))"),
    ("any/all arrays", "any == any(.[]; .) and all == all(.[]; .) and (any | not) == all(.[]; . | not) and (length > 0 or (all and (any | not)))"),
    ("array ops", "(. + []) == . and ([] + .) == . and (. - []) == . and (. - .) == [] and ((. + .) | length) == 2 * length"),
    ("slices", ". as $a | all(range(-length - 1; length + 2); . as $i | ($a[:$i] + $a[$i:]) == $a)"),
    ("tojson roundtrip", "(tojson | fromjson) == . and (tostring | fromjson) == ."),
    ("abs/floor on numbers", "all(.[] | numbers; (abs == (if . < 0 then -. else . end)) and floor <= . and . <= ceil and (ceil - floor) <= 1 and ((round - .) | fabs) <= 0.5 and (floor | . == floor) and ((tostring | tonumber) == .))"),
    ("abs definition", "all(.[]; cap(abs) == cap(if . < 0 then -. else . end))"),
];

const OBJECT_LAWS: &[(&str, &str)] = &[
    ("entries roundtrip", "(to_entries | from_entries) == . and with_entries(.) == . and ((to_entries | from_entries) | keys_unsorted) == keys_unsorted"),
    ("keys", "keys == (keys_unsorted | sort) and keys_unsorted == [path(.[])[]] and keys_unsorted == (to_entries | map(.key))"),
    ("to_entries", "to_entries == (. as $o | [keys_unsorted[] | {key: ., value: $o[.]}])"),
    ("has/in", ". as $o | all(keys[]; . as $k | ($o | has($k)) and ($k | in($o))) and (has(\"zz\") | not) and (has([\"q\"]) | not)"),
    ("map_values", "map_values(.) == . and (map_values(empty) | length) == 0 and map_values([.]) == with_entries(.value |= [.])"),
    ("map on objects", "map(.) == [.[]] and map(., .) == [.[] | ., .]"),
    ("del keys", ". as $o | all(keys_unsorted[]; . as $k | ($o | del(.[$k]) | has($k) | not) and (($o | del(.[$k]) | length) == ($o | length) - 1))"),
    ("add objects", "(. + {}) == . and ({} + .) == . and (. + .) == . and (. * .) == . and (. * {}) == ."),
    ("pick", ". as $o | all(keys_unsorted[]; . as $k | ($o | pick(.[$k])) == {($k): $o[$k]})"),
    ("pick product", ". as $o | [keys_unsorted[]] as $ks | if ($ks | length) < 2 then true else pick(.[$ks[0]], .[$ks[1]]) == (pick(.[$ks[0]]) * pick(.[$ks[1]])) end"),
    ("contains", "contains(.) and contains({}) and inside(.) and contains(map_values(if isarray then . + . else . end)) and (. as $o | map_values(if isarray then . + . + . else . end) | inside($o)) and (. as $o | all(keys_unsorted[]; . as $k | $o | contains({($k): $o[$k]})))"),
    ("sort_by on values", "([.[]] | sort) == (to_entries | sort_by(.value) | map(.value))"),
    ("add values", "cap(add) == cap(reduce .[] as $x (null; . + $x))"),
    ("paths", "[paths] == [skip(1; path(..))] and ([paths] | length) == ([..] | length) - 1"),
    ("walk", "walk(.) == ."),
    ("tojson roundtrip", "(tojson | fromjson) == . and ((tojson | fromjson) | keys_unsorted) == keys_unsorted"),
    ("with_entries keys", "with_entries(.key |= [.]) == (to_entries | map({key: [.key], value}) | from_entries)"),
    ("length", "length == (keys | length) and length == ([.[]] | length)"),
];

const AA_LAWS: &[(&str, &str)] = &[
    ("transpose verify", "transpose as $t | ($t | length) == (map(length) | max // 0) and all(range($t | length) as $x | ($t[$x] | length) == length, (range(length) as $y | $t[$x][$y] == .[$y][$x]); .)"),
    ("transpose twice", "if (map(length) | unique | length) <= 1 and length > 0 and (.[0] | length) > 0 then (transpose | transpose) == . else true end"),
    ("combinations", "[combinations] == [reduce .[] as $a ([]; . + ($a[] | [.]))] and ([combinations] | length) == (reduce .[] as $a (1; . * ($a | length)))"),
    ("combinations(n)", "if length == 0 then true else (.[0] | [combinations(2)]) == ([.[0], .[0]] | [combinations]) and (.[0] | [combinations(0)]) == [[]] end"),
    ("flatten aa", "flatten(1) == [.[] | if isarray then .[] else . end] and flatten == [.. | select(isarray | not)]"),
    ("add aa", "add == (if length == 0 then null else [.[][]] end)"),
    ("sort aa", "(sort | sorted) and (sort_by(length) | map(length) | sorted) and group_by(length) == (sort_by(length) | runs(length))"),
    ("bsearch aa", "sort as $s | all($s[] as $x | ($s | bsearch($x)) as $i | $i >= 0 and $s[$i] == $x; .)"),
    ("contains aa", "contains(.) and all(.[]; . as $r | $r | inside($r)) and (. as $a | all(.[]; . as $r | $a | contains([$r])))"),
];

const STRING_LAWS: &[(&str, &str)] = &[
    ("split/join", ". as $s | all((\",\", \" \", \"a\", \"ab\", \"\", \", \") as $x | ($s | split($x) | join($x)) == $s and ($s | split($x)) == ($s / $x); .)"),
    ("splits", "[splits(\", *\")] == split(\", *\"; null) and ([splits(\"a\")] | join(\"a\")) == ."),
    ("ltrimstr/rtrimstr", ". as $s | all((\"a\", \"ab\", \",\", \"\", \" \") as $x | ($s | ltrimstr($x)) == (if $s | startswith($x) then $s[($x | length):] else $s end) and ($s | rtrimstr($x)) == (if ($s | endswith($x)) and $x != \"\" then $s[:($s | length) - ($x | length)] else $s end); .)"),
    ("startswith/endswith", ". as $s | all((\"a\", \"ab\", \",\", \"\", \" \", \"b \") as $x | ($s | startswith($x)) == ($s[:($x | length)] == $x) and ($s | endswith($x)) == ($x == \"\" or (($s | length) >= ($x | length) and $s[-($x | length):] == $x)); .)"),
    ("indices strings", ". as $s | all((\"a\", \"ab\", \",\", \" \", \"aa\") as $x | ($s | indices($x)) == [range($s | length) | select(. as $i | $s[$i:][:$x | length] == $x)]; .)"),
    ("contains strings", ". as $s | all((\"a\", \"ab\", \",\", \"\", \"b,\") as $x | ($s | contains($x)) == ($x == \"\" or ($s | indices($x) | length > 0)) and ($x | inside($s)) == ($s | contains($x)); .)"),
    ("ascii case", "(ascii_downcase | ascii_upcase) == ascii_upcase and (ascii_upcase | ascii_downcase) == ascii_downcase and (ascii_downcase | length) == length"),
    ("explode/implode", "(explode | implode) == . and (explode | length) == length"),
    ("utf8bytelength", "utf8bytelength == (tobytes | length)"),
    ("trim", "trim == (ltrim | rtrim) and (trim | trim) == trim and (ltrim | startswith(\" \") | not) and (rtrim | endswith(\" \") | not)"),
    ("tostring/tojson", "tostring == . and (tojson | fromjson) == . and ([.] | tostring | fromjson) == [.]"),
    ("length", "length == (explode | length) and length == (. / \"\" | length)"),
    ("tonumber", "if test(\"^[0-9]+$\") then (tonumber | tostring) == (ltrimstr(\"0\") | if . == \"\" then \"0\" else . end) or startswith(\"0\") else true end"),
    ("toboolean", "cap(toboolean) == (if trim == \"true\" then [{out: true}] elif trim == \"false\" then [{out: false}] else [{err: 1}] end)"),
    ("tonumber fails", "if test(\"[^ 0-9]\") or trim == \"\" or (trim | test(\" \")) then cap(tonumber) == [{err: 1}] else (cap(tonumber) | length) == 1 end"),
    ("string ops", "(. + \"\") == . and (. * 1) == . and (. * 0) == null and ((. * 2) == (. + .))"),
    ("slices", ". as $s | all(range(-length - 1; length + 2); . as $i | ($s[:$i] + $s[$i:]) == $s)"),
    ("test/match", "test(\"\") and (test(\"a\") == (indices(\"a\") | length > 0)) and ([match(\"a\"; \"g\").offset] == indices(\"a\"))"),
];

fn arrays(maxlen: usize) -> Vec<RVal> {
    let atoms: Vec<RVal> = vec![rv::int(0), rv::int(1), RVal::Float(1.0), rv::int(-1), rv::s("a"), rv::s("b"), RVal::Null, RVal::Arr(vec![rv::int(0)]), RVal::Obj(vec![(rv::s("a"), rv::int(0))])];
    let mut out: Vec<Vec<RVal>> = vec![vec![]];
    let mut frontier: Vec<Vec<RVal>> = vec![vec![]];
    for _ in 0..maxlen {
        let mut nf = vec![];
        for s in &frontier {
            for a in &atoms {
                let mut s2 = s.clone();
                s2.push(a.clone());
                nf.push(s2);
            }
        }
        out.extend(nf.iter().cloned());
        frontier = nf;
    }
    out.into_iter().map(RVal::Arr).collect()
}

fn strings(maxlen: usize) -> Vec<RVal> {
    let alpha = ["a", "b", ",", " "];
    let mut out: Vec<String> = vec![String::new()];
    let mut frontier: Vec<String> = vec![String::new()];
    for _ in 0..maxlen {
        let mut nf = vec![];
        for s in &frontier {
            for a in alpha {
                nf.push(format!("{s}{a}"));
            }
        }
        out.extend(nf.iter().cloned());
        frontier = nf;
    }
    for extra in ["true", "false", "007", "10", "é€", "Aé b", "😀,a", "1 2", " 1", "true false", " true", "true\n"] {
        out.push(extra.to_string());
    }
    out.into_iter().map(|s| rv::s(&s)).collect()
}

fn run_laws(run: &Run, class: &str, laws: &[(String, String)], inputs: &[RVal]) -> Counts {
    let compiled: Vec<(String, String, jq::F)> = laws
        .iter()
        .filter_map(|(n, l)| match jq::compile_full(&format!("{PRE}{l}"), &[]) {
            Ok(f) => Some((n.clone(), l.clone(), f)),
            Err(e) => {
                run.violation(&format!("law does not compile: {class}/{n}"), json!({"law": l, "error": e}));
                None
            }
        })
        .collect();
    inputs
        .par_iter()
        .map(|i| {
            let mut c = Counts::default();
            for (n, l, f) in &compiled {
                let key = format!("{class}/{n} @ {i}");
                let nontrivial = match i {
                    RVal::Arr(a) => !a.is_empty(),
                    RVal::Obj(o) => !o.is_empty(),
                    RVal::Str(s, _) => !s.is_empty(),
                    _ => true,
                };
                c.case(h64(&key), nontrivial, h64(&(n, i.to_string().len())));
                c.transitions += 1;
                if let Err(why) = crate::ev::watched(|| key.clone(), false, || jq::law_holds(f, jq::to_val(i), vec![])) {
                    run.violation(&key, json!({"class": class, "law": l, "input": i.to_string(), "why": why}));
                }
            }
            c
        })
        .reduce(Counts::default, Counts::merge)
}

pub fn main(tier: Tier) -> ! {
    jq::quiet_panics();
    let run = Run::new("C12", "exploration", tier);
    let maxlen = if run.quick() { 3 } else { 4 };
    let arrs = arrays(maxlen);
    let own = |t: &[(&str, &str)]| -> Vec<(String, String)> { t.iter().map(|(n, l)| (n.to_string(), l.to_string())).collect() };

    // key-filter laws: every law x every key filter
    let mut key_laws = vec![];
    for (n, l) in KEY_LAWS {
        for k in KEY_FILTERS {
            key_laws.push((format!("{n} [f = {k}]"), l.replace("KF", k)));
        }
    }
    let c = run_laws(&run, "array+key", &key_laws, &arrs);
    run.family("arrays x key filters", json!({"arrays": arrs.len(), "laws": KEY_LAWS.len(), "key_filters": KEY_FILTERS, "cases": c.evaluations}));
    run.add(c);
    // long arrays with many ties (sorting strategies change with the length of the input)
    let longs: Vec<RVal> = {
        let mut v = vec![];
        let maxn = if run.quick() { 72 } else { 200 };
        for n in 0..=maxn {
            for m in 1..=5i64 {
                for variant in 0..3 {
                    let arr: Vec<RVal> = (0..n as i64)
                        .map(|i| {
                            let k = match variant {
                                0 => i % m,
                                1 => (n as i64 - i) % m,
                                _ => (i * 7 + 3) % m,
                            };
                            RVal::Obj(vec![(rv::s("k"), rv::int(k)), (rv::s("i"), rv::int(i))])
                        })
                        .collect();
                    v.push(RVal::Arr(arr));
                }
            }
        }
        v
    };
    let long_laws: Vec<(String, String)> = KEY_LAWS.iter().map(|(n, l)| (format!("{n} [f = .k]"), l.replace("KF", ".k"))).chain([
        ("group_by members keep input order".to_string(), "all(group_by(.k)[]; . as $g | all(range(1; length); $g[. - 1].i < $g[.].i))".to_string()),
        ("unique_by keeps the first occurrence".to_string(), ". as $a | all(unique_by(.k)[]; . as $u | $u.i == ([$a[] | select(.k == $u.k) | .i] | min))".to_string()),
        ("sort/min/max on long arrays".to_string(), "(sort | sorted) and (sort | length) == length and (if length > 0 then min == sort[0] and max == sort[-1] else true end) and (map(.k) | unique) == (map(.k) | sort | runs(.) | map(.[0]))".to_string()),
    ]).collect();
    let c = run_laws(&run, "long-array", &long_laws, &longs);
    run.family("long arrays with ties", json!({"arrays": longs.len(), "laws": long_laws.len(), "cases": c.evaluations}));
    run.add(c);
    run.bound_done(format!("all arrays [{{k: f(i) mod m, i}}] for every length n <= {}, m in 1..5, three key patterns", if run.quick() { 72 } else { 200 }));
    let array_laws: Vec<(String, String)> = own(ARRAY_LAWS).into_iter().map(|(n, l)| (n, l.replace("$a0", "$__a"))).map(|(n, l)| if l.contains("$__a") { (n, format!(". as $__a | {l}")) } else { (n, l) }).collect();
    let c = run_laws(&run, "array", &array_laws, &arrs);
    run.family("arrays", json!({"arrays": arrs.len(), "laws": ARRAY_LAWS.len(), "cases": c.evaluations}));
    run.add(c);
    run.bound_done(format!("all arrays of length <= {maxlen} over 9 atoms ({} arrays)", arrs.len()));

    // objects: TREE(1,3) with arbitrary keys
    let objs: Vec<RVal> = {
        let atoms = vec![rv::int(0), rv::int(1), rv::s("a"), RVal::Null, RVal::Bool(false)];
        let keys = vec![rv::s("a"), rv::s("b"), rv::int(0), RVal::Null, RVal::Arr(vec![rv::int(1)]), RVal::Bool(false)];
        let w = if run.quick() { 2 } else { 3 };
        let mut v: Vec<RVal> = gen::trees(&atoms, &keys, 1, w).into_iter().filter(|x| matches!(x, RVal::Obj(_))).collect();
        // nested values
        v.push(RVal::Obj(vec![(rv::s("a"), RVal::Obj(vec![(rv::s("b"), rv::int(1)), (rv::s("c"), rv::int(2))])), (rv::s("d"), rv::int(3))]));
        v.push(RVal::Obj(vec![(rv::s("a"), RVal::Arr(vec![rv::int(1), RVal::Obj(vec![(rv::s("b"), RVal::Null)])])), (rv::int(0), RVal::Arr(vec![]))]));
        v
    };
    let c = run_laws(&run, "object", &own(OBJECT_LAWS), &objs);
    run.family("objects", json!({"objects": objs.len(), "laws": OBJECT_LAWS.len(), "cases": c.evaluations}));
    run.add(c);
    run.bound_done(format!("all objects with <= {} entries over 6 keys x 5 values (incl. false and null as key and as value), every insertion order ({} objects)", if run.quick() { 2 } else { 3 }, objs.len()));

    // arrays of arrays
    let aas: Vec<RVal> = {
        let rows: Vec<RVal> = vec![RVal::Arr(vec![]), RVal::Arr(vec![rv::int(1)]), RVal::Arr(vec![rv::int(1), rv::int(2)]), RVal::Arr(vec![rv::s("a"), RVal::Null]), RVal::Arr(vec![rv::int(0), rv::int(0), rv::int(3)]), RVal::Arr(vec![RVal::Arr(vec![rv::int(1)])])];
        let mut out: Vec<Vec<RVal>> = vec![vec![]];
        let mut frontier: Vec<Vec<RVal>> = vec![vec![]];
        for _ in 0..(if run.quick() { 3 } else { 4 }) {
            let mut nf = vec![];
            for s in &frontier {
                for r in &rows {
                    let mut s2 = s.clone();
                    s2.push(r.clone());
                    nf.push(s2);
                }
            }
            out.extend(nf.iter().cloned());
            frontier = nf;
        }
        out.into_iter().map(RVal::Arr).collect()
    };
    let c = run_laws(&run, "array-of-arrays", &own(AA_LAWS), &aas);
    run.family("arrays of arrays", json!({"inputs": aas.len(), "laws": AA_LAWS.len(), "cases": c.evaluations}));
    run.add(c);

    let strs = strings(if run.quick() { 3 } else { 4 });
    let c = run_laws(&run, "string", &own(STRING_LAWS), &strs);
    run.family("strings", json!({"strings": strs.len(), "laws": STRING_LAWS.len(), "cases": c.evaluations}));
    run.add(c);
    run.bound_done(format!("all strings of length <= {} over {{a, b, comma, space}} ({} strings)", if run.quick() { 3 } else { 4 }, strs.len()));

    run.sample(json!({"array_input": arrs[arrs.len() / 3].to_string(), "law": KEY_LAWS[1].1.replace("KF", KEY_FILTERS[4])}));
    run.sample(json!({"object_input": objs[objs.len() / 2].to_string(), "law": OBJECT_LAWS[0].1}));
    run.sample(json!({"array_laws": ARRAY_LAWS.iter().map(|l| l.0).collect::<Vec<_>>(), "object_laws": OBJECT_LAWS.iter().map(|l| l.0).collect::<Vec<_>>(), "aa_laws": AA_LAWS.iter().map(|l| l.0).collect::<Vec<_>>(), "string_laws": STRING_LAWS.iter().map(|l| l.0).collect::<Vec<_>>()}));

    run.finish(
        "inputs are enumerated exhaustively: all arrays of length <= 3 (thorough 4) over {0, 1, 1.0, -1, \"a\", \"b\", null, [0], {\"a\":0}} (duplicates, ties, mixed types), all small objects with arbitrary keys in every insertion order, arrays of arrays over 6 rows, all strings of length <= 3/4 over {a, b, comma, space}; every documented equation or invariant (several verbatim from the manual's verify blocks) is one law evaluated on every input, key-filter laws for each of 11 key filters yielding 0..2 outputs or errors. non-trivial = non-empty input",
        &["laws are written from docs/stdlib.dj and evaluated by the implementation itself (metamorphic: no expected values)", "min_by/max_by tie-breaks are not demanded"],
    )
}
