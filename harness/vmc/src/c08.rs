//! C08 — one consistent total order; equal values are interchangeable keys.
use crate::ev::{h64, Counts, Run, Tier};
use crate::gen;
use crate::jq;
use crate::rval::{self as rv, RVal};
use jaq_all::json::Val;
use rayon::prelude::*;
use serde_json::json;
use std::cmp::Ordering;
use std::hash::{Hash, Hasher};

/// a test value: model value + whether its integers are stored as big integers
#[derive(Clone)]
pub struct TV {
    pub r: RVal,
    pub big: bool,
}

impl TV {
    pub fn val(&self) -> Val {
        if self.big {
            jq::to_val_big(&self.r)
        } else {
            jq::to_val(&self.r)
        }
    }
    pub fn show(&self) -> String {
        format!("{}{}", self.r, if self.big { " (stored as big integer)" } else { "" })
    }
}

fn has_small_int(v: &RVal) -> bool {
    match v {
        RVal::Int(i) => num_traits::ToPrimitive::to_i64(i).is_some(),
        RVal::Arr(a) => a.iter().any(has_small_int),
        RVal::Obj(o) => o.iter().any(|(k, v)| has_small_int(k) || has_small_int(v)),
        _ => false,
    }
}

pub fn values(quick: bool) -> Vec<TV> {
    let mut out: Vec<TV> = vec![];
    for v in gen::nums() {
        out.push(TV { r: v.clone(), big: false });
        if has_small_int(&v) {
            out.push(TV { r: v, big: true });
        }
    }
    for v in gen::strs() {
        out.push(TV { r: v, big: false });
    }
    out.push(TV { r: RVal::Null, big: false });
    out.push(TV { r: RVal::Bool(false), big: false });
    out.push(TV { r: RVal::Bool(true), big: false });
    let atoms: Vec<RVal> = if quick {
        vec![RVal::Null, RVal::Bool(true), rv::int(0), RVal::Float(-0.0), rv::int(1), RVal::Float(1.0), rv::s("a"), rv::bs(b"a")]
    } else {
        vec![RVal::Null, RVal::Bool(true), rv::int(0), RVal::Float(-0.0), rv::int(1), RVal::Float(1.0), rv::s("a"), rv::bs(b"a"), rv::int(-1), RVal::Dec("1.0".into()), rv::s("b")]
    };
    let keys: Vec<RVal> = if quick { vec![rv::s("a"), rv::s("b"), rv::int(0), RVal::Null] } else { vec![rv::s("a"), rv::s("b"), rv::int(0), RVal::Null, RVal::Float(1.5), RVal::Arr(vec![])] };
    for v in gen::trees(&atoms, &keys, 1, 2) {
        if matches!(v, RVal::Arr(_) | RVal::Obj(_)) {
            if has_small_int(&v) && matches!(&v, RVal::Arr(a) if a.len() == 1) {
                out.push(TV { r: v.clone(), big: true });
            }
            out.push(TV { r: v, big: false });
        }
    }
    out
}

/// pairs outside the property's domain (by rule, not by result)
fn in_domain(a: &RVal, b: &RVal) -> bool {
    fn big_ints(v: &RVal, out: &mut bool) {
        match v {
            RVal::Int(i) => {
                if num_traits::Signed::abs(i) > num_bigint::BigInt::from(1u64 << 53) {
                    *out = true
                }
            }
            RVal::Arr(a) => a.iter().for_each(|x| big_ints(x, out)),
            RVal::Obj(o) => o.iter().for_each(|(k, v)| {
                big_ints(k, out);
                big_ints(v, out)
            }),
            _ => {}
        }
    }
    fn finite_nonint(v: &RVal, out: &mut bool) {
        match v {
            RVal::Float(_) | RVal::Dec(_) => {
                if v.f64().unwrap().is_finite() {
                    *out = true
                }
            }
            RVal::Arr(a) => a.iter().for_each(|x| finite_nonint(x, out)),
            RVal::Obj(o) => o.iter().for_each(|(k, v)| {
                finite_nonint(k, out);
                finite_nonint(v, out)
            }),
            _ => {}
        }
    }
    if a.has_nan() || b.has_nan() {
        return false;
    }
    let (mut ba, mut bb, mut fa, mut fb) = (false, false, false, false);
    big_ints(a, &mut ba);
    big_ints(b, &mut bb);
    finite_nonint(a, &mut fa);
    finite_nonint(b, &mut fb);
    !((ba && fb) || (bb && fa))
}

const CMP_PROG: &str = "[$a < $b, $a <= $b, $a == $b, $a != $b, $a > $b, $a >= $b]";

/// interchangeability laws: each must yield `true` whenever $a == $b
const INTERCHANGE: &[(&str, &str)] = &[
    ("has", "{($a):1,\"x\":2} | has($b)"),
    ("index", "{($a):1,\"x\":2} | .[$b] == 1"),
    ("obj-eq", "{($a):1,\"x\":2} == {\"x\":2,($b):1}"),
    ("obj-eq-3", "{\"y\":0,($a):1,\"x\":2} == {\"x\":2,($b):1,\"y\":0}"),
    ("add", "({($a):1,\"x\":0} + {($b):2}) == {($a):2,\"x\":0}"),
    ("add-len", "({($a):1,\"x\":0} + {($b):2}) | length == 2"),
    ("mul", "({($a):{\"p\":1},\"x\":0} * {($b):{\"q\":2}}) == {\"x\":0,($a):{\"p\":1,\"q\":2}}"),
    ("update", "{($a):1,\"x\":2} | (.[$b] |= 3) | length == 2 and .[$a] == 3"),
    ("assign", "{\"x\":2,($a):1} | (.[$b] = 3) == {\"x\":2,($a):3}"),
    ("delete", "{($a):1,\"x\":2} | del(.[$b]) == {\"x\":2}"),
    ("indices", "if ($b|type) == \"array\" then true else ([{\"z\":9},$a,$a] | indices($b)) == [1,2] end"),
    ("index-arr", "[$a] | index([$b]) == 0"),
    ("contains", "[$a] | contains([$b]) or (($a|type) == \"string\")"),
    ("inside", "([$b] | inside([$a])) or (($a|type) == \"string\")"),
    ("unique", "[$a,$b] | unique | length == 1"),
    ("minus", "([$a] - [$b]) == []"),
    ("group_by", "[$a,$b] | group_by(.) | length == 1"),
    ("nested-key", "{([$a]):1,\"x\":2} | has([$b])"),
    ("getpath", "{($a):{\"k\":7},\"x\":2} | getpath([$b,\"k\"]) == 7"),
    ("sort-eq", "([$a,$b]|sort) == ([$b,$a]|sort)"),
    ("bsearch", "[$a] | bsearch($b) == 0"),
    ("to_entries", "{($a):1} | to_entries[0].key == $b"),
];

fn std_hash(v: &Val) -> u64 {
    #[allow(deprecated)]
    let mut h = std::hash::SipHasher::new_with_keys(1, 2);
    v.hash(&mut h);
    h.finish()
}

pub fn main(tier: Tier) -> ! {
    jq::quiet_panics();
    let run = Run::new("C08", "model_checking", tier);
    let vals = values(run.quick());
    let n = vals.len();
    eprintln!("[C08] {n} values, {} ordered pairs", n * n);
    let cmpf = jq::compile(CMP_PROG, &["a", "b"]).expect("cmp program");
    let laws: Vec<(&str, &str, jq::F)> = INTERCHANGE.iter().map(|(n, p)| (*n, *p, jq::compile_full(p, &["a", "b"]).unwrap_or_else(|e| panic!("law {n}: {e}")))).collect();

    // 1. all ordered pairs: six comparison operators against the model order + interchangeability
    let idx: Vec<usize> = (0..n).collect();
    let counts = idx
        .par_chunks(8)
        .map(|chunk| {
            let mut c = Counts::default();
            let v: Vec<Val> = vals.iter().map(|t| t.val()).collect();
            let mut eqpairs = 0u64;
            for &i in chunk {
                for j in 0..n {
                    let (a, b) = (&vals[i], &vals[j]);
                    if !in_domain(&a.r, &b.r) {
                        continue;
                    }
                    let o = rv::cmp(&a.r, &b.r);
                    let e = rv::eq(&a.r, &b.r);
                    let exp = vec![o == Ordering::Less, o != Ordering::Greater, e, !e, o == Ordering::Greater, o != Ordering::Less];
                    let key = format!("cmp: a={} b={}", a.show(), b.show());
                    // the model itself must be a preorder consistent with ==
                    assert!((o == Ordering::Equal) == e, "model inconsistent on {key}");
                    let got = jq::run_vals(&cmpf, Val::Null, vec![v[i].clone(), v[j].clone()], 2);
                    let gotv: Option<Vec<bool>> = match &got {
                        Ok(outs) if outs.len() == 1 => match &outs[0] {
                            Ok(Val::Arr(a)) => a.iter().map(|x| if let Val::Bool(b) = x { Some(*b) } else { None }).collect(),
                            _ => None,
                        },
                        _ => None,
                    };
                    c.case(h64(&key), i != j, h64(&exp));
                    if gotv.as_ref() != Some(&exp) {
                        run.violation(&key, json!({"a": a.show(), "b": b.show(), "program": CMP_PROG, "expected": exp, "got": format!("{:?}", gotv), "oracle": "documented order (corelang.dj#ordering)"}));
                    }
                    if e {
                        eqpairs += 1;
                        // equal values hash equally (library level, fixed-seed hasher)
                        if std_hash(&v[i]) != std_hash(&v[j]) {
                            run.violation(&format!("hash: a={} b={}", a.show(), b.show()), json!({"a": a.show(), "b": b.show(), "what": "$a == $b but Hash differs (fixed-seed hasher)"}));
                        }
                        for (name, prog, f) in &laws {
                            c.evaluations += 1;
                            c.transitions += 1;
                            if let Err(why) = jq::law_holds(f, Val::Null, vec![v[i].clone(), v[j].clone()]) {
                                run.violation(&format!("interchange/{name}: a={} b={}", a.show(), b.show()), json!({"a": a.show(), "b": b.show(), "program": prog, "why": why, "what": "$a == $b but the two are not interchangeable"}));
                            }
                        }
                    }
                }
            }
            c.transitions += eqpairs;
            c
        })
        .reduce(Counts::default, Counts::merge);
    run.family("pairs", json!({"values": n, "pairs_compared": counts.evaluations}));
    run.add(counts);
    run.bound_done(format!("all ordered pairs over {n} values"));

    // 2. triples over a core: sort/min/max/unique/group_by/bsearch/array subtraction agree with the model order
    let core: Vec<&TV> = {
        let step = if run.quick() { (n / 48).max(1) } else { (n / 110).max(1) };
        vals.iter().step_by(step).filter(|t| !t.r.has_nan()).collect()
    };
    let m = core.len();
    let sortf = jq::compile_full("[sort, min, max, unique, (group_by(.)|map(length)), (. as $x | sort | bsearch($x[0])), (. - [.[0]])]", &[]).expect("sort program");
    let cidx: Vec<usize> = (0..m).collect();
    let counts = cidx
        .par_iter()
        .map(|&i| {
            let mut c = Counts::default();
            for j in 0..m {
                for k in 0..m {
                    let t = [core[i], core[j], core[k]];
                    if !(in_domain(&t[0].r, &t[1].r) && in_domain(&t[1].r, &t[2].r) && in_domain(&t[0].r, &t[2].r)) {
                        continue;
                    }
                    let arr: Vec<RVal> = t.iter().map(|x| x.r.clone()).collect();
                    let mut sorted = arr.clone();
                    rv::sort(&mut sorted);
                    let mut uniq: Vec<RVal> = vec![];
                    let mut groups: Vec<i64> = vec![];
                    for x in &sorted {
                        if uniq.last().map_or(false, |l| rv::eq(l, x)) {
                            *groups.last_mut().unwrap() += 1;
                        } else {
                            uniq.push(x.clone());
                            groups.push(1);
                        }
                    }
                    let first_pos = sorted.iter().position(|x| rv::eq(x, &arr[0])).unwrap();
                    let minus: Vec<RVal> = arr.iter().filter(|x| !rv::eq(x, &arr[0])).cloned().collect();
                    let input: Val = t.iter().map(|x| x.val()).collect();
                    let key = format!("sort: {}", RVal::Arr(arr.clone()));
                    let got = jq::run_vals(&sortf, input, vec![], 2);
                    c.case(h64(&key), true, h64(&RVal::Arr(sorted.clone()).to_string()));
                    let ok = match &got {
                        Ok(outs) if outs.len() == 1 => match &outs[0] {
                            Ok(v) => match jq::to_rval(v) {
                                RVal::Arr(r) if r.len() == 7 => {
                                    let eqv = |a: &RVal, b: &RVal| rv::eq(a, b);
                                    let bs_ok = match &r[5] {
                                        // any index of an equal element is acceptable
                                        RVal::Int(p) => num_traits::ToPrimitive::to_usize(p).map_or(false, |p| p < 3 && rv::eq(&sorted[p], &arr[0])),
                                        _ => false,
                                    };
                                    // sort: a permutation sorted by the model order, stable (equal elements keep input order: compare structurally)
                                    rv::same(&r[0], &RVal::Arr(sorted.clone()))
                                        && eqv(&r[1], &sorted[0])
                                        && eqv(&r[2], &sorted[2])
                                        && eqv(&r[3], &RVal::Arr(uniq.clone()))
                                        && rv::same(&r[4], &RVal::Arr(groups.iter().map(|g| rv::int(*g)).collect()))
                                        && bs_ok
                                        && rv::same(&r[6], &RVal::Arr(minus.clone()))
                                        && {
                                            let _ = first_pos;
                                            true
                                        }
                                }
                                _ => false,
                            },
                            _ => false,
                        },
                        _ => false,
                    };
                    if !ok {
                        let gots = match &got {
                            Ok(o) => format!("{:?}", o.iter().map(|x| x.as_ref().map(|v| v.to_string()).map_err(|e| format!("{e:?}"))).collect::<Vec<_>>()),
                            Err(p) => format!("panic {p}"),
                        };
                        run.violation(&key, json!({"input": RVal::Arr(arr).to_string(), "model_sorted": RVal::Arr(sorted).to_string(), "got [sort,min,max,unique,group sizes,bsearch,minus]": gots}));
                    }
                }
            }
            c
        })
        .reduce(Counts::default, Counts::merge);
    run.family("triples", json!({"core_values": m, "triples": counts.evaluations}));
    run.add(counts);

    // 3. long arrays with ties: sorting algorithms switch strategy with the length, and stability shows only
    //    on equal elements that can be told apart (1, 1.0, 1.00, the same object in another insertion order)
    let classes: Vec<Vec<RVal>> = vec![
        vec![rv::int(1), RVal::Float(1.0), RVal::Dec("1.0".into()), RVal::Dec("1.00".into()), RVal::Dec("1e0".into())],
        vec![rv::int(0), RVal::Float(-0.0), RVal::Dec("0.0".into()), RVal::Dec("-0.0".into())],
        vec![crate::eval_const("{\"a\":1,\"b\":2}"), crate::eval_const("{\"b\":2,\"a\":1}")],
        vec![rv::int(2), RVal::Dec("2.0".into())],
        vec![RVal::Null],
        vec![rv::s("a"), rv::s("a")],
    ];
    let sort_only = jq::compile_full("sort", &[]).expect("sort");
    let mut c = Counts::default();
    let lens: &[usize] = if run.quick() { &[20, 33, 48, 100, 257] } else { &[20, 21, 32, 33, 34, 48, 64, 65, 100, 128, 257, 1000, 5000] };
    for &len in lens {
        for pattern in 0..6u64 {
            // deterministic arrangements: element i is member (i*p) of class (i*q), for a few (p, q)
            let (p, q) = [(1u64, 1u64), (3, 5), (7, 2), (5, 11), (2, 3), (13, 7)][pattern as usize];
            let arr: Vec<RVal> = (0..len as u64)
                .map(|i| {
                    let cl = &classes[((i * q + i / 7) % classes.len() as u64) as usize];
                    cl[((i * p + i / 3) % cl.len() as u64) as usize].clone()
                })
                .collect();
            let mut sorted = arr.clone();
            rv::sort(&mut sorted); // the model sort is stable
            let key = format!("long sort: length {len} arrangement {pattern}");
            c.case(h64(&key), true, h64(&(len, pattern)));
            let got = jq::run_vals(&sort_only, arr.iter().map(jq::to_val).collect(), vec![], 2);
            let ok = matches!(&got, Ok(outs) if outs.len() == 1 && matches!(&outs[0], Ok(v) if rv::same(&jq::to_rval(v), &RVal::Arr(sorted.clone()))));
            if !ok {
                let gs = match &got {
                    Ok(o) => o.first().map(|x| x.as_ref().map(|v| v.to_string()).unwrap_or_else(|_| "error".into())).unwrap_or_default(),
                    Err(p) => format!("panic {p}"),
                };
                run.violation(&key, json!({"what": "sort is not the stable sort by the documented order", "input": RVal::Arr(arr).to_string().chars().take(600).collect::<String>(), "model_sorted": RVal::Arr(sorted).to_string().chars().take(600).collect::<String>(), "got": gs.chars().take(600).collect::<String>()}));
            }
        }
    }
    run.family("long arrays with ties", json!({"lengths": lens, "arrangements": 6, "cases": c.evaluations}));
    run.bound_done(format!("sort of arrays of lengths {lens:?} built from 6 classes of equal but distinguishable values in 6 arrangements: stable"));
    run.add(c);
    run.bound_done(format!("all ordered triples over a core of {m} values"));
    run.sample(json!({"pair": {"a": vals[3].show(), "b": vals[n / 2].show()}, "program": CMP_PROG}));
    run.sample(json!({"interchange_laws": INTERCHANGE.iter().map(|(n, p)| format!("{n}: {p}")).collect::<Vec<_>>()}));

    run.finish(
        "every ordered pair of the value set V8 (all number representations and boundaries, the same integers stored as big integers, text/byte strings, all arrays and objects of depth 1 and width <= 2 over representative atoms, objects in every insertion order) is compared with all six operators against an independent model of the documented order; for every pair with $a == $b, 22 interchangeability laws and hash equality; every triple over a core is sorted/min/max/unique/group_by/bsearch/subtracted and compared with the model. Pairs outside the property's domain (NaN; |integer| > 2^53 against a finite non-integer) are excluded by rule. distinct non-trivial = distinct pairs with different members / distinct triples",
        &["the model order is transcribed from docs/corelang.dj#ordering", "min/max/unique are compared up to ==, sort and array subtraction structurally"],
    )
}
