//! C15 — parsing depends only on tokens and the documented grammar, precedence and sugar.
//! (1) all syntax trees up to a size bound, printed by an independent printer with minimal and with
//!     full parenthesisation, must parse back to the same tree;
//! (2) every ordered pair, triple (thorough: quadruple) of binary operators incl. `as $x |`, written
//!     flat, must parse to the grouping computed by an independent precedence climber over the
//!     manual's table;
//! (3) trivia (blanks, newlines, comments with the backslash rule) between any two tokens never matters;
//! (4) every documented shorthand behaves like its expansion on every input of a set;
//! (5) malformed programs are rejected when loading/compiling.
use crate::ev::{h64, Counts, Run, Tier};
use crate::gen::{self, Alphabet};
use crate::jq;
use crate::rterm::{self as rt, *};
use crate::rval::{self as rv, RVal};
use rayon::prelude::*;
use serde_json::json;

fn s(x: &str) -> T {
    T::Str(None, vec![SP::S(x.into())])
}

fn key(k: &str) -> (Part, bool) {
    (Part::Index(s(k)), false)
}

fn all_ops() -> Vec<Op> {
    let mut v = vec![Op::Pipe, Op::Comma, Op::Assign, Op::Update];
    for c in ['+', '-', '*', '/', '%'] {
        v.push(Op::UpdateMath(c));
    }
    v.extend([Op::UpdateAlt, Op::Alt, Op::Or, Op::And]);
    for c in ["==", "!=", "<", "<=", ">", ">="] {
        v.push(Op::Cmp(c));
    }
    for c in ['+', '-', '*', '/', '%'] {
        v.push(Op::Math(c));
    }
    v
}

fn alphabet() -> Alphabet {
    let mut a = Alphabet::default();
    a.leaves = vec![T::Id, T::Recurse, num(1), var("$x"), call0("f"), s("a"), T::Path(b(T::Id), vec![key("a")]), T::Arr(None), T::Obj(vec![]), T::Break("$l".into())];
    let v = |n: &str| Pat::Var(n.into());
    // unary contexts
    a.un.push(Box::new(|x| T::Neg(b(x))));
    a.un.push(Box::new(|x| T::Try(b(x), None)));
    a.un.push(Box::new(|x| arr(x)));
    a.un.push(Box::new(|x| T::Path(b(x), vec![(Part::Index(num(0)), false)])));
    a.un.push(Box::new(|x| T::Path(b(x), vec![(Part::Range(None, None), false)])));
    a.un.push(Box::new(|x| T::Path(b(x), vec![(Part::Index(s("a")), true)])));
    a.un.push(Box::new(|x| T::Path(b(x), vec![key("a"), (Part::Range(None, None), true), (Part::Index(s("b c")), false)])));
    a.un.push(Box::new(|x| T::Path(b(T::Id), vec![(Part::Index(x), false)])));
    a.un.push(Box::new(|x| T::Path(b(T::Id), vec![(Part::Range(Some(x), None), false)])));
    a.un.push(Box::new(|x| T::Path(b(T::Id), vec![(Part::Range(None, Some(x)), true)])));
    a.un.push(Box::new(|x| T::Obj(vec![(s("a"), Some(x))])));
    a.un.push(Box::new(|x| T::Obj(vec![(x, Some(num(1)))])));
    a.un.push(Box::new(|x| T::Obj(vec![(var("$x"), None), (s("k"), Some(x)), (s("b"), None)])));
    a.un.push(Box::new(|x| T::Str(None, vec![SP::S("a".into()), SP::I(x), SP::S("b".into())])));
    a.un.push(Box::new(|x| T::Str(Some("@base64".into()), vec![SP::I(x)])));
    a.un.push(Box::new(|x| T::If(vec![(x, num(1))], None)));
    a.un.push(Box::new(|x| T::If(vec![(num(1), x)], None)));
    a.un.push(Box::new(|x| T::If(vec![(num(1), num(2)), (num(3), x)], Some(b(num(4))))));
    a.un.push(Box::new(|x| T::If(vec![(num(1), num(2))], Some(b(x)))));
    a.un.push(Box::new(|x| T::Label("$l".into(), b(x))));
    a.un.push(Box::new(|x| T::Def(vec![DefD { name: "g".into(), args: vec![], body: x }], b(call0("g")))));
    a.un.push(Box::new(|x| T::Def(vec![DefD { name: "g".into(), args: vec!["h".into(), "$v".into()], body: num(1) }], b(x))));
    a.un.push(Box::new(|x| call("f", vec![x])));
    a.un.push(Box::new(move |x| T::Fold("reduce".into(), b(x), Pat::Var("$y".into()), vec![num(0), T::Id])));
    a.un.push(Box::new(move |x| T::Fold("foreach".into(), b(T::Id), Pat::Var("$y".into()), vec![num(0), x])));
    a.un.push(Box::new(move |x| T::Fold("foreach".into(), b(T::Id), Pat::Arr(vec![Pat::Var("$y".into())]), vec![num(0), T::Id, x])));
    a.un.push(Box::new(|x| T::Try(b(num(1)), Some(b(x)))));
    // binary contexts
    for op in all_ops() {
        a.bin.push(Box::new(move |x, y| bin(x, op.clone(), y)));
    }
    a.bin.push(Box::new({
        let v = v("$y");
        move |x, y| as_(x, v.clone(), y)
    }));
    a.bin.push(Box::new(|x, y| as_(x, Pat::Arr(vec![Pat::Var("$a".into()), Pat::Obj(vec![(s("b"), Pat::Var("$b".into())), (s("c"), Pat::Var("$c".into()))])]), y)));
    a.bin.push(Box::new(|x, y| T::Try(b(x), Some(b(y)))));
    a.bin.push(Box::new(|x, y| T::If(vec![(x, y)], None)));
    a.bin.push(Box::new(|x, y| T::If(vec![(num(1), x)], Some(b(y)))));
    a.bin.push(Box::new(|x, y| call("f", vec![x, y])));
    a.bin.push(Box::new(|x, y| T::Path(b(x), vec![(Part::Index(y), false)])));
    a.bin.push(Box::new(|x, y| T::Path(b(T::Id), vec![(Part::Range(Some(x), Some(y)), false)])));
    a.bin.push(Box::new(|x, y| T::Obj(vec![(s("a"), Some(x)), (s("b"), Some(y))])));
    a.bin.push(Box::new(|x, y| T::Fold("reduce".into(), b(x), Pat::Var("$v".into()), vec![y, T::Id])));
    a.bin.push(Box::new(|x, y| T::Obj(vec![(x, Some(y))])));
    a.bin.push(Box::new(|x, y| T::Def(vec![DefD { name: "g".into(), args: vec![], body: x }], b(y))));
    a
}

/// Trees that differ only in how a run of definitions is nested are written identically:
/// `def a: ..; def b: ..; body`. The parser yields the flat form.
fn canon_defs(t: &T) -> Option<T> {
    // only the shape the generator can produce: Def(ds1, Def(ds2, body)) anywhere in the tree
    fn go(t: &T, changed: &mut bool) -> T {
        let r = |x: &T, ch: &mut bool| b(go(x, ch));
        match t {
            T::Def(ds, body) => {
                let mut ds: Vec<DefD> = ds.iter().map(|d| DefD { name: d.name.clone(), args: d.args.clone(), body: go(&d.body, changed) }).collect();
                let mut body = go(body, changed);
                while let T::Def(ds2, b2) = body {
                    ds.extend(ds2);
                    body = *b2;
                    *changed = true;
                }
                T::Def(ds, b(body))
            }
            T::Neg(x) => T::Neg(r(x, changed)),
            T::Arr(Some(x)) => T::Arr(Some(r(x, changed))),
            T::Bin(l, op, rr) => T::Bin(r(l, changed), op.clone(), r(rr, changed)),
            T::As(l, p, rr) => T::As(r(l, changed), p.clone(), r(rr, changed)),
            T::Label(x, f) => T::Label(x.clone(), r(f, changed)),
            T::Try(f, c) => T::Try(r(f, changed), c.as_ref().map(|c| r(c, changed))),
            T::If(its, e) => T::If(its.iter().map(|(i, t)| (go(i, changed), go(t, changed))).collect(), e.as_ref().map(|e| r(e, changed))),
            T::Call(n, args) => T::Call(n.clone(), args.iter().map(|a| go(a, changed)).collect()),
            T::Fold(n, xs, p, args) => T::Fold(n.clone(), r(xs, changed), p.clone(), args.iter().map(|a| go(a, changed)).collect()),
            T::Obj(kvs) => T::Obj(kvs.iter().map(|(k, v)| (go(k, changed), v.as_ref().map(|v| go(v, changed)))).collect()),
            T::Str(f, parts) => T::Str(
                f.clone(),
                parts
                    .iter()
                    .map(|p| match p {
                        SP::I(t) => SP::I(go(t, changed)),
                        s => s.clone(),
                    })
                    .collect(),
            ),
            T::Path(h, parts) => T::Path(
                r(h, changed),
                parts
                    .iter()
                    .map(|(p, o)| {
                        (
                            match p {
                                Part::Index(i) => Part::Index(go(i, changed)),
                                Part::Range(x, y) => Part::Range(x.as_ref().map(|x| go(x, changed)), y.as_ref().map(|y| go(y, changed))),
                            },
                            *o,
                        )
                    })
                    .collect(),
            ),
            other => other.clone(),
        }
    }
    let mut changed = false;
    let c = go(t, &mut changed);
    changed.then_some(c)
}

fn roundtrip(run: &Run, c: &mut Counts, t: &T) {
    let canon = canon_defs(t);
    let t = canon.as_ref().unwrap_or(t);
    let min = Printer { style: Style::Minimal, sep: " " };
    let full = Printer { style: Style::Full, sep: " " };
    let tight = Printer { style: Style::Minimal, sep: "" };
    for (name, text) in [("minimal", min.print(t)), ("full", full.print(t))] {
        c.case(h64(&text), true, h64(&(name, text.len() % 7)));
        let back = rt::parse_with_jaq(&text);
        if back.as_ref() != Some(t) {
            run.violation(&format!("round trip ({name}): {text}"), json!({"printed": text, "tree": format!("{t:?}"), "parsed_back": back.map(|b| format!("{b:?}")), "reprinted": rt::parse_with_jaq(&text).map(|b| full.print(&b))}));
        }
    }
    // no blanks around symbolic operators (blanks are kept where two words would fuse)
    let text = tight.print(t);
    if tokens(&text) == tokens(&min.print(t)) {
        c.case(h64(&text), true, h64(&("tight", text.len() % 7)));
        let back = rt::parse_with_jaq(&text);
        if back.as_ref() != Some(t) {
            run.violation(&format!("round trip (no blanks): {text}"), json!({"printed": text, "tree": format!("{t:?}"), "parsed_back": back.map(|b| format!("{b:?}"))}));
        }
    }
}

// ------------------------------------------------------------------ an independent tokeniser (for trivia insertion)

/// Split a program into tokens (maximal munch): strings incl. their interpolations are one token.
pub fn tokens(src: &str) -> Vec<String> {
    let b: Vec<char> = src.chars().collect();
    let mut i = 0;
    let mut out = vec![];
    let ident_start = |c: char| c.is_ascii_alphabetic() || c == '_';
    let ident_char = |c: char| c.is_ascii_alphanumeric() || c == '_';
    while i < b.len() {
        let c = b[i];
        if c.is_whitespace() {
            i += 1;
            continue;
        }
        let st = i;
        if c == '"' {
            i = skip_string(&b, i);
        } else if ident_start(c) || ((c == '$' || c == '@' || c == '.') && i + 1 < b.len() && ident_start(b[i + 1])) {
            i += 1;
            loop {
                while i < b.len() && ident_char(b[i]) {
                    i += 1;
                }
                if i + 2 < b.len() && b[i] == ':' && b[i + 1] == ':' && ident_start(b[i + 2]) {
                    i += 2;
                } else {
                    break;
                }
            }
        } else if c.is_ascii_digit() {
            while i < b.len() && (b[i].is_ascii_digit() || b[i] == '.') {
                i += 1;
            }
            if i < b.len() && (b[i] == 'e' || b[i] == 'E') {
                i += 1;
                if i < b.len() && (b[i] == '+' || b[i] == '-') {
                    i += 1;
                }
                while i < b.len() && b[i].is_ascii_digit() {
                    i += 1;
                }
            }
        } else {
            let rest: String = b[i..(i + 3).min(b.len())].iter().collect();
            let ops = ["//=", "|=", "//", "==", "!=", "<=", ">=", "+=", "-=", "*=", "/=", "%=", ".."];
            match ops.iter().find(|o| rest.starts_with(**o)) {
                Some(o) => i += o.len(),
                None => i += 1,
            }
        }
        out.push(b[st..i].iter().collect());
    }
    out
}

fn skip_string(b: &[char], mut i: usize) -> usize {
    // b[i] == '"'
    i += 1;
    while i < b.len() {
        match b[i] {
            '\\' if i + 1 < b.len() && b[i + 1] == '(' => {
                // interpolation: skip to the matching parenthesis, honouring nested strings
                i += 2;
                let mut depth = 1;
                while i < b.len() && depth > 0 {
                    match b[i] {
                        '(' => depth += 1,
                        ')' => depth -= 1,
                        '"' => {
                            i = skip_string(b, i) - 1;
                        }
                        _ => {}
                    }
                    i += 1;
                }
            }
            '\\' => i += 2,
            '"' => return i + 1,
            _ => i += 1,
        }
    }
    i
}

const TRIVIA: &[(&str, &str)] = &[
    ("blank", " "),
    ("newline", "\n"),
    ("tab", "\t"),
    ("crlf", "\r\n"),
    ("blanks", "  \n\t "),
    ("comment", " # c\n"),
    ("empty comment", "#\n"),
    ("comment ending in two backslashes", "# c \\\\\n"),
    ("comment continued by one backslash", "# c \\\n | error # still the comment\n"),
    ("comment continued by three backslashes, then by one", "# c \\\\\\\n , 1 \\\n | 2\n"),
    ("comment with operators and quotes", " # \" ( [ { | , if def \\( \n"),
    ("comment crlf", "# c\r\n"),
    ("comment that is a single backslash", "#\\\n | error # still the comment\n"),
    ("comment that is two backslashes", "#\\\\\n"),
    ("comment of three backslashes, continuation line of one", "#\\\\\\\n , 1\n"),
    ("continuation line that is only a backslash", "# c \\\n\\\n | error\n"),
    ("continuation line that is empty", "# c \\\n\n"),
];

const PROGRAMS: &[&str] = &[
    "def f: 1; def g(a; $b): a + $b; g(f; 2)",
    "def f(g): def h: g; h | h; f(. + 1)",
    "reduce .[] as [$a, {b: $c}] (0; . + $a + $c)",
    "foreach (1, 2) as $x (0; . + $x; [$x, .])",
    "if . == 1 then \"one\" elif . == 2 then \"two\" else \"many\" end",
    "try error(\"x\") catch (. + \"y\")",
    "label $out | 1, break $out, 2",
    ".a.b[0]?.c[1:2][]?",
    ".\"a b\"[\"c\"].[0]",
    "{a: 1, \"b\": 2, (\"c\" + \"d\"): 3, $x, @base64 \"k\\(.)\": 4, if: 5, \"x\\(1)y\"}",
    "[.[] | select(. > 1 and . < 3 or . == 5 | not)]",
    "\"a\\(1 + 2)b\\(\"c\\(3)d\")e\"",
    "@json \"v=\\(.)\" , @text \"t\"",
    ". as {a: $a, $b, (\"c\"): [$c]} | [$a, $b, $c]",
    "-1 - -2 , -.a , -(1 + 2)",
    ".[1:] , .[:2] , .[1:2] , .[-1]",
    "1 as $x | 2 as $y | [$x, $y]",
    ".. | numbers",
    "f::g , m::h(1; 2)",
    ".a = 1 | .b |= . + 1 | .c += 2 | .d //= 3",
    "1 // 2 // empty",
    "1, 2 | . * 3 , 4",
    "[limit(3; repeat(1))] | length",
    "try .a catch .",
    ".a? // \"d\"",
    "[.[]?]",
    "{(1, 2 | tostring): (3, 4)}",
    "if . then 1 end",
    "def f($a; $b): $a + $b; f(1; 2)",
    "input_filename, $ENV.PATH?, now > 0",
];

// ------------------------------------------------------------------ independent precedence climber

#[derive(Clone, Debug, PartialEq)]
enum O {
    B(Op),
    As,
}

fn oprec(o: &O) -> (u8, bool) {
    match o {
        O::As => (2, true),
        O::B(op) => rt::prec(op),
    }
}

/// the grouping the manual's table implies for `a0 o1 a1 o2 a2 ...`
fn climb(atoms: &[T], ops: &[O], pos: &mut usize, min: u8) -> T {
    let mut lhs = atoms[*pos].clone();
    while *pos < ops.len() {
        let o = ops[*pos].clone();
        let (p, right) = oprec(&o);
        if p < min {
            break;
        }
        *pos += 1;
        let rhs = match o {
            // the body of a binding extends as far right as possible
            O::As => climb(atoms, ops, pos, 0),
            _ => climb(atoms, ops, pos, if right { p } else { p + 1 }),
        };
        lhs = match o {
            O::As => as_(lhs, Pat::Var("$v".into()), rhs),
            O::B(op) => bin(lhs, op, rhs),
        };
    }
    lhs
}

fn flat(atoms: &[T], ops: &[O]) -> String {
    let mut s = rt::show(&atoms[0]);
    for (i, o) in ops.iter().enumerate() {
        match o {
            O::As => s.push_str(" as $v | "),
            O::B(op) => {
                s.push(' ');
                s.push_str(&rt::op_str(op));
                s.push(' ');
            }
        }
        s.push_str(&rt::show(&atoms[i + 1]));
    }
    s
}

// ------------------------------------------------------------------ sugar

/// (name, shorthand, expansion): must produce equal traces on every input
const SUGAR: &[(&str, &str, &str)] = &[
    (".a.b", ".a.b", ".a | .b"),
    (".a.b.c", ".a.b.c", ".a | .b | .c"),
    (".\"a\"", ".\"a\"", ".a"),
    (".[\"a\"]", ".[\"a\"]", ".a"),
    (".a[\"b\"]", ".a[\"b\"]", ".a | .b"),
    (".a.\"b\"", ".a.\"b\"", ".a | .b"),
    (".a.[0]", ".a.[0]", ".a | .[0]"),
    ("f[]", "(.a, .b)[]", "(.a, .b) | .[]"),
    ("f[i]", "(.a, .b)[0]", "(.a, .b) | .[0]"),
    ("f[i:j]", "(.a, .b)[1:2]", "(.a, .b) | .[1:2]"),
    ("f.a", "(.a, .b).a", "(.a, .b) | .a"),
    ("f?", "(.a, .b | .[1])?", "try (.a, .b | .[1])"),
    (".a?", ".a?", "try .a"),
    (".a[]?", ".a[]?", ".a | try .[]"),
    (".a?.b", ".a?.b", "(try .a) | .b"),
    ("f??", ".a??", "try .a"),
    ("..", "[..]", "[recurse]"),
    ("-f?", "try -.a? catch -1", "try -(.a?) catch -1"),
    ("{a}", "{a}", "{a: .a}"),
    ("{a, b}", "{a, b}", "{a: .a, b: .b}"),
    ("{\"a\"}", "{\"a\"}", "{\"a\": .a}"),
    ("{\"a b\"}", "{\"a b\"}", "{\"a b\": .[\"a b\"]}"),
    ("{$x}", ".a as $x | {$x}", ".a as $x | {x: $x}"),
    ("{$x, a}", ".b as $x | {$x, a}", ".b as $x | {x: $x, a: .a}"),
    ("{\"a\\(f)\": v}", "{\"a\\(1, 2)\": 3}", "{(\"a\" + (1, 2 | tostring)): 3}"),
    ("{\"a\\(f)\"}", "{\"a\\(1)\"}", "{\"a1\": .a1}"),
    ("{(k): v} products", "[{(\"a\", \"b\"): (1, 2)}]", "[(\"a\", \"b\") as $k | (1, 2) as $v | {($k): $v}]"),
    ("{a: f, b: g} products", "[{a: (1, 2), b: (3, 4)}]", "[(1, 2) as $a | (3, 4) as $b | {a: $a, b: $b}]"),
    ("{(k1): v1, (k2): v2}", "[{(\"a\", \"b\"): 1, (\"c\", \"d\"): 2}]", "[(\"a\", \"b\") as $k1 | (\"c\", \"d\") as $k2 | {($k1): 1, ($k2): 2}]"),
    ("keyword keys", "{if: 1, then: 2, and: 3, def: 4, reduce: 5, as: 6, import: 7, label: 8, try: 9, or: 0, __loc__: 1}", "{\"if\": 1, \"then\": 2, \"and\": 3, \"def\": 4, \"reduce\": 5, \"as\": 6, \"import\": 7, \"label\": 8, \"try\": 9, \"or\": 0, \"__loc__\": 1}"),
    ("keyword paths", "{\"if\": 1, \"and\": {\"or\": 2}} | .if, .and.or, .end?", "{\"if\": 1, \"and\": {\"or\": 2}} | .[\"if\"], .[\"and\"][\"or\"], .[\"end\"]?"),
    ("keyword shorthand keys", "{\"if\": 1, \"end\": 2} | {if, end}", "{\"if\": 1, \"end\": 2} | {\"if\": .[\"if\"], \"end\": .[\"end\"]}"),
    ("{a: 1 | 2}", "{a: 1 | 2}", "{a: (1 | 2)}"),
    ("{a: 1, b: 2} comma ends the value", "{a: 1, b: 2}", "{a: (1), b: (2)}"),
    ("elif", "if .a then 1 elif .b then 2 elif .c then 3 else 4 end", "if .a then 1 else (if .b then 2 else (if .c then 3 else 4 end) end) end"),
    ("missing else", "if .a then 1 end", "if .a then 1 else . end"),
    ("elif without else", "if .a then 1 elif .b then 2 end", "if .a then 1 else (if .b then 2 else . end) end"),
    ("if with several conditions", "[if (.a, .b) then 1 else 2 end]", "[(.a, .b) as $c | if $c then 1 else 2 end]"),
    ("\"..\\(f)..\"", "\"x\\(.a)y\\(.b)z\"", "\"x\" + (.a | tostring) + \"y\" + (.b | tostring) + \"z\""),
    ("\"\\(f)\" multiple outputs", "[\"x\\(1, 2)y\\(3, 4)\"]", "[\"x\" + ((1, 2) | tostring) + \"y\" + ((3, 4) | tostring)]"),
    ("@fmt \"..\"", "@base64 \"x\\(.a)y\"", "\"x\" + (.a | @base64) + \"y\""),
    ("@json \"..\"", "@json \"[\\(.a), \\(.b)]\"", "\"[\" + (.a | tojson) + \", \" + (.b | tojson) + \"]\""),
    ("@text", "@text \"a\\(.a)\"", "\"a\\(.a)\""),
    ("@fmt alone", "@base64", ". | @base64 \"\\(.)\""),
    ("def f($x)", "def f($x): [$x, $x]; [f(.a, .b)]", "def f(x): x as $x | [$x, $x]; [f(.a, .b)]"),
    ("def f($x; $y)", "def f($x; $y): [$x, $y]; [f(1, 2; 3, 4)]", "def f(x; y): x as $x | y as $y | [$x, $y]; [f(1, 2; 3, 4)]"),
    ("def f(g; $x)", "def f(g; $x): [g, $x]; [f(.a; 1, 2)]", "def f(g; x): x as $x | [g, $x]; [f(.a; 1, 2)]"),
    ("array pattern", ". as [$a, $b] | [$a, $b]", ".[0] as $a | .[1] as $b | [$a, $b]"),
    ("nested array pattern", ". as [[$a], $b] | [$a, $b]", ".[0][0] as $a | .[1] as $b | [$a, $b]"),
    ("object pattern", ". as {a: $a, b: $b} | [$a, $b]", ".a as $a | .b as $b | [$a, $b]"),
    ("object pattern {$a}", ". as {$a, $b} | [$a, $b]", ".a as $a | .b as $b | [$a, $b]"),
    ("object pattern \"k\"", ". as {\"a\": $x} | $x", ".a as $x | $x"),
    ("object pattern (k)", ". as {(\"a\", \"b\"): $x} | $x", "(\"a\", \"b\") as $k | .[$k] as $x | $x"),
    ("object pattern nested", ". as {a: [$x, {b: $y}]} | [$x, $y]", ".a[0] as $x | .a[1].b as $y | [$x, $y]"),
    ("object pattern keyword key", "{\"if\": 1} | . as {if: $x} | $x", "{\"if\": 1} | .[\"if\"] as $x | $x"),
    ("reduce 2 args", "reduce (1, 2, 3) as $x (0; . + $x)", "last(foreach (1, 2, 3) as $x (0; . + $x))"),
    ("foreach 2 args", "[foreach (1, 2, 3) as $x (0; . + $x)]", "[foreach (1, 2, 3) as $x (0; . + $x; .)]"),
    ("foreach 3 args", "[foreach (1, 2, 3) as $x (0; . + $x; [$x, .])]", "[foreach (1, 2, 3) as $x (0; . + $x) as $acc | empty] + [[1, 1], [2, 3], [3, 6]]"),
    ("reduce with pattern", "reduce ([1, 2], [3, 4]) as [$a, $b] (0; . + $a * $b)", "reduce ([1, 2], [3, 4]) as $p (0; . + $p[0] * $p[1])"),
    ("try without catch", "[try (1, error(\"x\"), 2)]", "[try (1, error(\"x\"), 2) catch empty]"),
    ("try binds an atom", "try error(\"x\") // 1", "(try error(\"x\")) // 1"),
    ("try catch binds atoms", "try error(\"x\") catch . | length", "(try error(\"x\") catch .) | length"),
    ("- binds an atom", "-.a | . + 1", "(-.a) | . + 1"),
    ("-f[]", "[-.c[]]", "[-(.c[])]"),
    ("reduce source is an atom", "reduce .c[] as $x (0; . + $x) | . + 1", "(reduce (.c[]) as $x (0; . + $x)) | . + 1"),
    ("label extends right", "label $l | 1, break $l, 2", "label $l | (1, break $l, 2)"),
    ("def extends right", "def f: 1; f, 2 | . + 1", "def f: 1; ((f, 2) | . + 1)"),
    ("as extends right", "1 as $x | 2, $x | . + 1", "1 as $x | ((2, $x) | . + 1)"),
    ("as left: comma", "[1, 2 as $x | $x + 1]", "[1, (2 as $x | $x + 1)]"),
    ("as left: arithmetic", "1 + 2 as $x | $x * 2", "(1 + 2) as $x | $x * 2"),
    ("reduce body is a full term", "reduce (1, 2) as $x (0; . + $x | . * 2, 1)", "reduce (1, 2) as $x (0; ((. + $x) | ((. * 2), 1)))"),
    ("f(a; b) arguments are full terms", "def f(a; b): [a, b]; f(1, 2 | . + 1; 3 as $x | $x)", "def f(a; b): [a, b]; f(((1, 2) | . + 1); (3 as $x | $x))"),
    (".[f] is a full term", ".c[0, 1 | . + 1]", ".c[((0, 1) | . + 1)]"),
    (".[f:g]", ".c[0, 1 : 2 | . + 1]", ".c[(0, 1) : (2 | . + 1)]"),
    ("[f] is a full term", "[1, 2 | . + 1]", "[((1, 2) | . + 1)]"),
    ("(k): v value stops at comma", "{(\"a\"): 1 | 2, b: 3}", "{(\"a\"): (1 | 2), b: 3}"),
];

/// programs that the grammar does not derive: must be rejected when loading or compiling
const REJECT: &[&str] = &[
    "", "|", "1 |", "| 1", "1 2", "1,", ", 1", "()", "(", ")", "[", "]", "{", "}", "[1", "1]", "{a", "{a:}", "{a: 1,,}", "{,}", "[,]", "{(1)}", "{(1, 2)}", "{1: 2}", "{a: 1 2}", "{a b}", "{.a}", "{a: 1, 2}",
    "1 +", "+ 1", "1 + + 2", "* 2", "1 ==", "1 == == 2", "and", "1 and", "or 1", "1 //", "// 1", "1 = ", "|= 1",
    "if", "if 1", "if 1 then", "if 1 then 2", "if 1 then 2 else", "if 1 then 2 else 3", "if 1 2 end", "if 1 then 2 elif 3 end", "if 1 then 2 else 3 else 4 end", "then", "else", "elif", "end", "1 end", "if then else end",
    "try", "catch", "try catch", "1 catch 2", "try 1 catch", "try 1 + 2 catch 3",
    "reduce", "reduce .", "reduce . as", "reduce . as $x", "reduce . as $x ()", "reduce . as $x (0)", "reduce . as $x (0; 1; 2)", "reduce . as $x (0; 1; 2; 3)", "reduce 1 + 2 as $x (0; 1)", "reduce . as x (0; 1)", "reduce . $x (0; 1)",
    "foreach . as $x (0)", "foreach . as $x (0; 1; 2; 3)", "foreach . as $x", "foreach . as $x 0; 1",
    "label", "label $x", "label x | 1", "label $x 1", "break", "break x", "break $x", "label $x | break $y",
    "def", "def f", "def f:", "def f: 1", "def f: 1;", "def f(): 1; f", "def f(;): 1; 1", "def f(a;): 1; 1", "def f(1): 1; 1", "def f a: 1; 1", "def $f: 1; 1", "def f: 1 2; 3", "def f(a): 1; f", "def f: 1; f(2)", "def f($a; a): 1; f", "def f(a: 1; 1",
    "1 as", "1 as x | 2", "1 as $x", "1 as $x |", "1 as $x 2", "1 as [$x | 2", "1 as [] | 2", "1 as {} | 2", "1 as {a} | 2", "1 as {a:} | 2", "1 as {(1)} | 2", "1 as [$x,] | 2", "1 as 2 | 3", "1 as $x, $y | 2", "as $x | 1",
    ".a.", ".a..b", "...", ".. a", ".[", ".[]]", ".[1:2:3]", ".[:]", ".[1;2]", ". 1", ".a 1", ".[1] 2", "$", "$1", "$x", "1 | $y", "f", "f(1)", "f(", "f(1;", "f(;)", "f()", "length(1)", "not(1)",
    "@", "@nonexistent", "@base64 1 2", "@nonexistent \"x\"", "\"", "\"a", "\"\\(\"", "\"\\(1\"", "\"\\x\"", "\"\\u12\"", "\"\\(1 2)\"", "\"a\" \"b\"",
    "1 # c \\\\\n + ", "1 + # c \\\n 2", "?", "1 ? 2", "??", "1.2.3", "1e", "0x10", "1..2", "'a'", "`a`", "a::", "::a", "a::b", "$a::b", "import \"a\" as x; 1", "include; 1", "1; 2", ";", ":", "1 : 2", "%", "!", "1 ! 2", "!= 1", "1 <> 2", "1 => 2", "1 := 2", "1 && 2", "1 || 2", "~", "^", "1 ^ 2", "&",
    "\u{e9}", "\u{0}", "1 \u{0} 2",
];

fn sugar_inputs() -> Vec<RVal> {
    let mut v = vec![RVal::Null, rv::int(1), rv::s("a"), RVal::Arr(vec![]), RVal::Arr(vec![rv::int(1), rv::int(2), rv::int(3)]), RVal::Arr(vec![RVal::Arr(vec![rv::int(1)]), rv::int(2)])];
    for o in [
        "{}",
        "{\"a\":1,\"b\":2}",
        "{\"a\":{\"b\":{\"c\":3}},\"b\":[1,2,3],\"c\":[4,5,6]}",
        "{\"a\":[1,{\"b\":2}],\"b\":[[1],2],\"c\":[1,2,3]}",
        "{\"a\":null,\"b\":false,\"c\":[],\"a1\":7,\"a b\":8}",
        "{\"a\":true,\"b\":\"x\",\"c\":[0]}",
        "{\"a\":[[1,2],3],\"b\":{\"a\":5},\"c\":[-1,2]}",
        "{\"a\":\"text\",\"b\":\"\\u00e9\",\"c\":[1.5]}",
    ] {
        v.push(crate::eval_const(o));
    }
    v
}

pub fn main(tier: Tier) -> ! {
    jq::quiet_panics();
    let run = Run::new("C15", "model_checking", tier);

    // (1) print/parse round trip over all trees
    let a = alphabet();
    let maxsize = if run.quick() { 4 } else { 5 };
    let by = gen::terms_by_size(&a, maxsize.min(4));
    let mut total = Counts::default();
    let mut ntrees = 0usize;
    for sz in 1..=maxsize.min(4) {
        let c = by[sz]
            .par_chunks(512)
            .map(|ch| {
                let mut c = Counts::default();
                for t in ch {
                    roundtrip(&run, &mut c, t);
                }
                c
            })
            .reduce(Counts::default, Counts::merge);
        ntrees += by[sz].len();
        total = total.merge(c);
    }
    run.bound_done(format!("all syntax trees of <= {} constructors over {} leaves, {} unary and {} binary contexts ({} trees): minimal, full and blank-free print parse back to the tree", maxsize.min(4), a.leaves.len(), a.un.len(), a.bin.len(), ntrees));
    if maxsize > 4 {
        let n5 = gen::count_size(&a, &by, 5);
        let c = gen::par_size(
            &a,
            &by,
            5,
            Counts::default,
            |c, t| {
                if run.time_left() {
                    roundtrip(&run, c, &t);
                }
            },
            Counts::merge,
        );
        total = total.merge(c);
        if run.time_left() {
            run.bound_done(format!("all {n5} syntax trees of 5 constructors"));
            ntrees += n5;
        } else {
            run.bound_capped(format!("syntax trees of 5 constructors: wall budget reached ({n5} trees in the space)"));
        }
    }
    run.family("print/parse round trip", json!({"trees": ntrees, "prints_parsed": total.evaluations}));
    run.add(total);

    // (2) operator pairs, triples, quadruples against an independent climber
    let mut ops: Vec<O> = all_ops().into_iter().map(O::B).collect();
    ops.push(O::As);
    let atoms: Vec<T> = ["a", "b", "c", "d", "e"].iter().map(|k| T::Path(b(T::Id), vec![key(k)])).collect();
    let maxn = if run.quick() { 3 } else { 4 };
    let mut c = Counts::default();
    let mut seqs: Vec<Vec<O>> = vec![vec![]];
    for n in 1..=maxn {
        seqs = seqs.iter().flat_map(|s| ops.iter().map(move |o| s.iter().cloned().chain([o.clone()]).collect::<Vec<O>>())).collect();
        let cc = seqs
            .par_chunks(256)
            .map(|ch| {
                let mut c = Counts::default();
                for sq in ch {
                    let text = flat(&atoms, sq);
                    let want = climb(&atoms, sq, &mut 0, 0);
                    let got = rt::parse_with_jaq(&text);
                    c.case(h64(&text), true, h64(&Printer { style: Style::Full, sep: "" }.print(&want).len()));
                    if got.as_ref() != Some(&want) {
                        run.violation(&format!("operators: {text}"), json!({"program": text, "grouping_by_the_table": Printer { style: Style::Full, sep: " " }.print(&want), "parsed_as": got.map(|g| Printer { style: Style::Full, sep: " " }.print(&g))}));
                    }
                }
                c
            })
            .reduce(Counts::default, Counts::merge);
        c = c.merge(cc);
        run.bound_done(format!("all {} sequences of {n} binary operators (24 operators and `as $v |`) written flat", seqs.len()));
    }
    run.family("operator sequences", json!({"operators": ops.len(), "max_length": maxn, "programs": c.evaluations}));
    run.add(c);

    // (3) trivia between tokens
    let mut corpus: Vec<String> = PROGRAMS.iter().map(|s| s.to_string()).collect();
    for sz in 1..=3 {
        for (i, t) in by[sz].iter().enumerate() {
            if !run.quick() || i % 5 == 0 {
                corpus.push(rt::show(t));
            }
        }
    }
    let c = corpus
        .par_iter()
        .map(|p| {
            let mut c = Counts::default();
            let Some(want) = rt::parse_with_jaq(p) else {
                run.violation(&format!("trivia corpus does not parse: {p}"), json!({"program": p}));
                return c;
            };
            let toks = tokens(p);
            // the tokeniser must not split what the lexer keeps together
            let mut variants: Vec<(String, String)> = vec![];
            for (name, tr) in TRIVIA {
                variants.push((format!("{name} in every gap"), format!("{tr}{}{tr}", toks.join(tr))));
                for g in 0..toks.len().saturating_sub(1) {
                    let mut s = String::new();
                    for (i, t) in toks.iter().enumerate() {
                        s.push_str(t);
                        s.push_str(if i == g { tr } else { " " });
                    }
                    variants.push((format!("{name} in gap {g}"), s));
                }
            }
            for (name, text) in variants {
                c.case(h64(&text), true, h64(&name));
                let got = rt::parse_with_jaq(&text);
                if got.as_ref() != Some(&want) {
                    run.violation(&format!("trivia ({name}): {text:?}"), json!({"original": p, "with_trivia": text, "tokens": toks, "parsed_as": got.map(|g| Printer { style: Style::Full, sep: " " }.print(&g))}));
                }
            }
            c
        })
        .reduce(Counts::default, Counts::merge);
    run.family("trivia", json!({"programs": corpus.len(), "trivia_kinds": TRIVIA.len(), "variants": c.evaluations}));
    run.bound_done(format!("{} programs x {} kinds of trivia x (every single gap, all gaps at once)", corpus.len(), TRIVIA.len()));
    run.add(c);

    // (4) sugar = expansion
    let ins = sugar_inputs();
    let mut c = Counts::default();
    for (name, short, long) in SUGAR {
        let (fs, fl) = match (jq::compile_full(short, &[]), jq::compile_full(long, &[])) {
            (Ok(a), Ok(b)) => (a, b),
            (a, b) => {
                run.violation(&format!("sugar {name}: does not compile"), json!({"shorthand": short, "expansion": long, "shorthand_error": a.err(), "expansion_error": b.err()}));
                continue;
            }
        };
        for i in &ins {
            let (ta, tb) = (jq::run_simple(&fs, jq::to_val(i), 64), jq::run_simple(&fl, jq::to_val(i), 64));
            let (ja, jb) = (jq::trace_json(&ta), jq::trace_json(&tb));
            let key = format!("sugar {name}: {short} @ {i}");
            c.case(h64(&key), ta.len() > 1, h64(&ja.to_string()));
            // error messages may name the construct; compare the kind of the terminal event only for errors
            let norm = |j: &serde_json::Value| {
                let mut v = j.as_array().cloned().unwrap_or_default();
                if let Some(last) = v.last_mut() {
                    if last.get("error").is_some() {
                        *last = json!("error");
                    }
                }
                serde_json::Value::Array(v)
            };
            if norm(&ja) != norm(&jb) {
                run.violation(&key, json!({"shorthand": short, "expansion": long, "input": i.to_string(), "shorthand_trace": ja, "expansion_trace": jb}));
            }
        }
    }
    run.family("sugar", json!({"equivalences": SUGAR.len(), "inputs": ins.len()}));
    run.bound_done(format!("{} shorthand/expansion pairs x {} inputs", SUGAR.len(), ins.len()));
    run.add(c);

    // (6) arbitrary token strings: the parser and an independent parser accept the same strings with the same tree
    const TOKS: &[&str] = &[
        ".", "..", ".a", "1", "$x", "f", "\"a\"", "\"b\\(1)c\"", "@f", "(", ")", "[", "]", "{", "}", "|", ",", ":", ";", "?", "-", "+", "*", "=", "|=", "//", "==", "<", "and", "or", "as", "if", "then", "else", "elif", "end", "try", "catch", "def", "reduce",
        "foreach", "label", "break", "g::h",
    ];
    let tl = if run.quick() { 4 } else { 5 };
    let nt = TOKS.len();
    let firsts: Vec<Vec<usize>> = (0..nt).flat_map(|a| (0..nt).map(move |b| vec![a, b])).collect();
    let (cc, accepted) = firsts
        .par_iter()
        .map(|pre| {
            let mut c = Counts::default();
            let mut acc = 0u64;
            // all strings that start with `pre` (lengths 2..=tl), plus the single tokens once
            let mut stack: Vec<Vec<usize>> = vec![pre.clone()];
            if pre[1] == 0 {
                stack.push(vec![pre[0]]);
            }
            while let Some(s) = stack.pop() {
                let text = s.iter().map(|i| TOKS[*i]).collect::<Vec<_>>().join(" ");
                let got = rt::parse_with_jaq(&text);
                let want = crate::rparse::parse(&text);
                c.evaluations += 1;
                if got.is_some() {
                    acc += 1;
                    c.nontrivial.insert(h64(&text));
                }
                if got != want {
                    let full = Printer { style: Style::Full, sep: " " };
                    run.violation(&format!("token string: {text}"), json!({"program": text, "jaq": got.as_ref().map(|g| full.print(g)), "reference_parser": want.as_ref().map(|g| full.print(g)), "what": match (&got, &want) { (Some(_), None) => "accepted although the grammar does not derive it", (None, Some(_)) => "rejected although the grammar derives it", _ => "parsed to a different tree" }}));
                }
                if s.len() < tl && s.len() >= 2 {
                    for k in 0..nt {
                        let mut s2 = s.clone();
                        s2.push(k);
                        stack.push(s2);
                    }
                }
            }
            (c, acc)
        })
        .reduce(|| (Counts::default(), 0), |a, b| (a.0.merge(b.0), a.1 + b.1));
    run.family("token strings vs reference parser", json!({"tokens": nt, "max_length": tl, "strings": cc.evaluations, "accepted": accepted}));
    run.bound_done(format!("all {} strings of <= {tl} tokens over {nt} tokens: same accept/reject and the same tree as an independent recursive-descent parser", cc.evaluations));
    run.add(cc);

    // (5) rejection
    let mut c = Counts::default();
    for p in REJECT {
        let key = format!("reject: {p:?}");
        let r = std::panic::catch_unwind(|| jq::compile_full(p, &[]));
        c.case(h64(&key), true, h64(&r.as_ref().map(|r| r.is_ok()).unwrap_or(false)));
        match r {
            Ok(Err(_)) => (),
            Ok(Ok(f)) => {
                let t = jq::run_simple(&f, jaq_all::json::Val::Null, 4);
                run.violation(&key, json!({"program": p, "what": "accepted although the grammar does not derive it", "parsed_as": rt::parse_with_jaq(p).map(|g| Printer { style: Style::Full, sep: " " }.print(&g)), "outputs_on_null": jq::trace_json(&t)}));
            }
            Err(e) => run.violation(&key, json!({"program": p, "what": "panic while loading", "panic": jq::panic_msg(e)})),
        }
    }
    run.family("rejection", json!({"programs": REJECT.len()}));
    run.bound_done(format!("{} malformed programs are rejected when loading or compiling", REJECT.len()));
    run.add(c);

    run.sample(json!({"tree": "Bin(As(.a, $y, 1), Comma, Neg(Try(f)))", "minimal": rt::show(&bin(as_(T::Path(b(T::Id), vec![key("a")]), Pat::Var("$y".into()), num(1)), Op::Comma, T::Neg(b(T::Try(b(call0("f")), None))))), "full": Printer { style: Style::Full, sep: " " }.print(&bin(as_(T::Path(b(T::Id), vec![key("a")]), Pat::Var("$y".into()), num(1)), Op::Comma, T::Neg(b(T::Try(b(call0("f")), None)))))}));
    run.sample(json!({"flat": flat(&atoms, &[O::B(Op::Comma), O::As, O::B(Op::Math('+'))]), "grouping": Printer { style: Style::Full, sep: " " }.print(&climb(&atoms, &[O::B(Op::Comma), O::As, O::B(Op::Math('+'))], &mut 0, 0))}));
    run.sample(json!({"trivia": TRIVIA.iter().map(|t| t.0).collect::<Vec<_>>(), "tokens_example": tokens(PROGRAMS[9])}));
    run.sample(json!({"sugar": SUGAR.iter().map(|s| s.0).collect::<Vec<_>>()}));
    run.finish(
        "(1) every syntax tree of <= 4 (thorough 5) constructors over 10 leaves, 27 unary and 36 binary contexts (all 24 binary operators, bindings with patterns, try/catch, if/elif/else, label, def, reduce/foreach, calls, paths with indices, ranges and ?, objects with every key form, string interpolation, formats) is printed by an independent printer with only the parentheses the manual's table requires, with every operand parenthesised, and without blanks, and must parse back to the same tree; (2) every sequence of <= 3 (thorough 4) binary operators incl. `as $v |`, written flat, must parse to the grouping of an independent precedence climber over the manual's table; (3) blanks, newlines, CRLF and comments (plain, ending in an even number of backslashes, continued by an odd number) in every single gap and in all gaps of every program of a corpus; (4) each documented shorthand against its expansion on 14 inputs (event traces equal up to the error message); (5) programs the grammar does not derive must be rejected when loading or compiling. non-trivial = every case",
        &["the printer's table and the climber are written from docs/corelang.dj (operators sorted by increasing precedence; operators containing | or = group to the right)", "tokens are those of the lexer (e.g. `.a` is one token); trivia is only inserted between tokens", "shorthand equivalences compare outputs and the position of the first error, not error messages"],
    )
}
