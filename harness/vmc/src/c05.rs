//! C05 — no filter text, argument value or input document can crash jaq.
//! Exhaustive sweeps run in child processes (allocation failure aborts and cannot be caught);
//! a shared progress word tells the supervisor which case a child died on.
use crate::ev::{h64, Counts, Run, Tier};
use crate::gen;
use crate::jq;
use crate::rval::{self as rv, RVal};
use jaq_all::json::Val;
use serde_json::json;
use std::io::Write;
use std::process::{Command, Stdio};
use std::sync::atomic::{AtomicU64, Ordering};

// ------------------------------------------------------------------ case spaces (deterministic, indexable)

fn pool(quick: bool) -> Vec<RVal> {
    let mut v: Vec<RVal> = vec![RVal::Null, RVal::Bool(true), RVal::Bool(false)];
    let nums = gen::nums();
    if quick {
        // every integer boundary (each is a distinct overflow edge), every third of the other numbers
        let (ints, others): (Vec<RVal>, Vec<RVal>) = nums.into_iter().partition(|n| matches!(n, RVal::Int(_)));
        v.extend(ints);
        v.extend(others.into_iter().step_by(3));
    } else {
        v.extend(nums);
    }
    let long = "x".repeat(300);
    let strs: Vec<&str> = vec!["", "a", "é😀", "\u{0}", long.as_str(), "(", "[", "a*", "(?<n>a)|", "\\", "%Y-%m-%dT%H:%M:%SZ", "%", "%Q %z %", "gx", "gnixsl", "1", "-1", "1e999", "0x10", "null", "[1,2", "{\"a\":", "<a>", "a,b\n\"c", "dGVzdA==", "%zz", "2000-01-01T00:00:00Z", "\u{feff}", "a\u{0301}"];
    for s in strs.iter().step_by(if quick { 2 } else { 1 }) {
        v.push(rv::s(s));
    }
    v.push(rv::bs(b""));
    v.push(rv::bs(b"\xff\x00a"));
    v.push(RVal::Str(vec![0xff, 0xc3], false));
    let arrs = ["[-9223372036854775808]", "[]", "[9223372036854775807, -9223372036854775808, 4294967296]", "[0]", "[1,2,3]", "[[0,\"a\"]]", "[{\"key\":\"a\",\"value\":1}]", "[1970,0,1,0,0,0]", "[2000,1,30,25,61,61.5,0,0]", "[\"a\",\"b\"]", "[[1,2],[3]]", "[null,null]", "[-1,256]", "[1.5,\"x\",[],{}]", "[[\"a\",1],[\"b\"]]"];
    for a in arrs.iter().step_by(if quick { 2 } else { 1 }) {
        v.push(crate::eval_const(a));
    }
    let objs = ["{}", "{\"a\":1}", "{\"start\":1,\"end\":2}", "{\"start\":-1,\"end\":\"x\"}", "{\"t\":\"a\",\"a\":{\"b\":\"c\"},\"c\":[\"d\"]}", "{\"key\":null,\"value\":{}}", "{\"a\":{\"b\":{\"c\":null}}}", "{\"name\":\"n\",\"string\":\"s\",\"offset\":0,\"length\":1}"];
    for o in objs.iter().step_by(if quick { 2 } else { 1 }) {
        v.push(crate::eval_const(o));
    }
    v.push(RVal::Obj(vec![(rv::int(0), rv::int(1)), (RVal::Null, RVal::Arr(vec![]))]));
    // depth-10 nests
    let mut a = RVal::Arr(vec![]);
    let mut o = RVal::Obj(vec![]);
    for _ in 0..10 {
        a = RVal::Arr(vec![a]);
        o = RVal::Obj(vec![(rv::s("a"), o)]);
    }
    v.push(a);
    v.push(o);
    v
}

/// (name, arity) of every native and definition of the current tree
fn discovered() -> Vec<(String, usize)> {
    let mut v: Vec<(String, usize)> = jaq_all::data::funs().map(|(n, a, _)| (n.to_string(), a.len())).collect();
    v.extend(jq::defdb().all_named());
    v.sort();
    v.dedup();
    v
}

/// filters that are not swept with constant arguments, and why
fn skipped(name: &str, arity: usize) -> Option<&'static str> {
    match (name, arity) {
        ("until", 2) => Some("definitional non-termination with constant arguments"),
        ("halt_error", _) | ("debug", _) | ("stderr", _) => Some("only writes to stderr / ends the process"),
        ("repl", _) => Some("interactive"),
        ("input", _) | ("inputs", _) => Some("covered by C03/C17"),
        ("tick", _) | ("bomb", _) => Some("harness native"),
        _ => None,
    }
}

/// argument positions whose values are restricted to keep allocation bounded (resource, not crash)
fn small_only(name: &str, arity: usize) -> bool {
    matches!((name, arity), ("combinations", 1) | ("limit", 2) | ("range", 1) | ("range", 2) | ("range", 3) | ("repeat", 1) | ("flatten", 1) | ("jn", 2) | ("yn", 2))
}

/// syntax forms (operators, indexing, construction, binding) swept like natives: (program, arity)
const SYNTAX: &[(&str, usize)] = &[
    (". + $a1", 1), (". - $a1", 1), (". * $a1", 1), (". / $a1", 1), (". % $a1", 1), ("$a1 - .", 1), ("$a1 / .", 1), ("$a1 % .", 1), ("-.", 0), ("-$a1", 1),
    ("$a1 + $a2", 2), ("$a1 - $a2", 2), ("$a1 * $a2", 2), ("$a1 / $a2", 2), ("$a1 % $a2", 2),
    (". < $a1", 1), (". == $a1", 1), (". >= $a1", 1), ("[., $a1] | sort", 1), ("[., $a1, $a2] | unique", 2), (". // $a1", 1), (". and $a1", 1), ("$a1 or .", 1),
    (".[$a1]", 1), (".[$a1:]", 1), (".[:$a1]", 1), (".[$a1:$a2]", 2), (".[$a1]?", 1), (".[$a1][$a2]", 2), ("$a1[.]", 1), ("$a1[.:]", 1), ("$a1[:.]", 1),
    (".[$a1] = $a2", 2), (".[$a1:$a2] = $a3", 3), (".[$a1] |= empty", 1), (".[$a1:$a2] |= empty", 2), ("del(.[$a1])", 1), ("del(.[$a1:$a2])", 2), (".[$a1] += $a2", 2), (".[$a1] //= $a2", 2), ("del(.[$a1, $a2])", 2),
    ("{($a1): $a2}", 2), ("{($a1): .}", 1), ("{a: $a1} + .", 1), ("{a: $a1} * .", 1), ("\"x\\($a1)\\(.)\"", 1), ("@base64 \"\\($a1)\"", 1), ("@sh \"\\($a1)\"", 1), ("@csv \"\\($a1)\"", 1), ("@json \"\\($a1)\"", 1), ("@uri \"\\($a1)\"", 1), ("@html \"\\($a1)\"", 1),
    (". as [$x, $y] | [$x, $y]", 0), (". as {a: $x, $b} | [$x, $b]", 0), (". as {($a1): $x} | $x", 1), (". as [[$x]] | $x", 0), (". as {a: [$x]} | $x", 0),
    ("if . then $a1 else $a2 end", 2), ("reduce .[]? as $x ($a1; . + $x)", 1), ("foreach .[]? as $x ($a1; . - $x; [., $x])", 1), ("[.[]?]", 0), ("[..]", 0), ("try error catch .", 0), ("try error($a1) catch .", 1), ("[limit(3; .[]?, $a1)]", 1), ("label $l | ., break $l", 0),
    ("[.[]? | . % $a1]", 1), ("[.[]? | -.]", 0), ("[$a1, .] | min, max", 1), ("$__prog_name?", 0),
];

fn program_for(name: &str, arity: usize, mode: usize) -> String {
    if let Some(prog) = name.strip_prefix("syntax: ") {
        return match mode {
            0 => prog.to_string(),
            1 => format!("path({prog})"),
            _ => format!("({prog}) |= ."),
        };
    }
    let args = if arity == 0 { String::new() } else { format!("({})", (1..=arity).map(|i| format!("$a{i}")).collect::<Vec<_>>().join("; ")) };
    let call = format!("{name}{args}");
    match mode {
        0 => call,
        1 => format!("path({call})"),
        _ => format!("{call} |= ."),
    }
}

#[derive(Clone, Debug)]
struct Filt {
    name: String,
    arity: usize,
    mode: usize,
}

fn filters() -> Vec<Filt> {
    let mut v = vec![];
    for (name, arity) in discovered() {
        if skipped(&name, arity).is_some() {
            continue;
        }
        for mode in 0..3 {
            v.push(Filt { name: name.clone(), arity, mode });
        }
    }
    for (prog, arity) in SYNTAX {
        if *prog == "$__prog_name?" {
            continue;
        }
        for mode in 0..3 {
            v.push(Filt { name: format!("syntax: {prog}"), arity: *arity, mode });
        }
    }
    v
}

// ------------------------------------------------------------------ shared progress word

struct Progress(*mut AtomicU64);
unsafe impl Sync for Progress {}
unsafe impl Send for Progress {}

fn map_progress(path: &str, create: bool) -> Progress {
    use std::os::unix::io::AsRawFd;
    let f = std::fs::OpenOptions::new().read(true).write(true).create(create).open(path).expect("progress file");
    f.set_len(64).unwrap();
    let p = unsafe { libc::mmap(std::ptr::null_mut(), 64, libc::PROT_READ | libc::PROT_WRITE, libc::MAP_SHARED, f.as_raw_fd(), 0) };
    assert!(p != libc::MAP_FAILED);
    Progress(p as *mut AtomicU64)
}

impl Progress {
    fn set(&self, i: u64) {
        unsafe { (*self.0).store(i, Ordering::Relaxed) }
    }
    fn get(&self) -> u64 {
        unsafe { (*self.0).load(Ordering::Relaxed) }
    }
}

// ------------------------------------------------------------------ families, each a function from case index to a check

const TOKENS: &[&str] = &[
    ".", "..", "|", ",", "(", ")", "[", "]", "{", "}", ":", ";", "?", "-", "+", "*", "/", "%", "=", "|=", "+=", "//", "//=", "==", "<", "and", "or", "if", "then", "else", "elif", "end", "def", "as", "reduce", "foreach", "try", "catch", "label", "break", "import", "include",
    "$x", "@f", "@base64", "f", "0", "1.", "1e", "1.5", "\"", "\"a\"", "\"\\(", "\"\\u12", "#", "\n", "\\", "::", "f::g", "é", "$__loc__", ".a", ".[", ".\"a\"", "$", "@", "'", "`", "\u{0}", "not", "input",
];

const DOC_JSON: &[&str] = &["{", "}", "[", "]", ",", ":", "\"", "\\", "a", "\\u", "12", "d8", "0", "-", "1e", ".", "E+", "true", "nul", "N", "Infinity", "b\"", "\\x", "#", "\n", " ", "\u{0}", "\u{ff}", "+", "07"];
const DOC_YAML: &[&str] = &["a", ": ", "- ", "\n", " ", "&x ", "*x", "!!", "!!binary ", "!!int ", "!foo ", "[", "]", "{", "}", ",", "? ", "|", ">", "'", "\"", "\\", "#", "---", "...", "%YAML", "<<", "~", "\t", "1", ".inf", "0x", "=="];
const DOC_TOML: &[&str] = &["a", "=", "1", "\"", "'", "[", "]", "[[", "]]", "{", "}", ".", ",", "\n", " ", "#", "true", "inf", "1979-05-27", "T07:32:00", "\\", "\"\"\"", "0x", "_", "-", "+", "e"];
const DOC_XML: &[&str] = &["<a>", "</a>", "<a", "/>", ">", "<", " x=\"1\"", " y='", "'", "&lt;", "&", ";", "&#x", "<!--", "-->", "<![CDATA[", "]]>", "<?pi", "?>", "<?xml version=\"1.0\"?>", "<!DOCTYPE a", " [", "<!ENTITY e \"v\">", "]>", " SYSTEM \"x\"", "t", " ", "\n", "xmlns:a=\"u\"", "<a:b"];
const DOC_CSV: &[&str] = &["a", ",", "\"", "\n", "\r", "\t", "1", "\\", " ", "true", "\"\"", "\\0", "-", ".", "e"];

fn nth_string(alpha: &[&str], mut idx: u64, maxlen: usize) -> Option<String> {
    let n = alpha.len() as u64;
    for l in 1..=maxlen {
        let total = n.pow(l as u32);
        if idx < total {
            let mut s = String::new();
            for _ in 0..l {
                s.push_str(alpha[(idx % n) as usize]);
                idx /= n;
            }
            return Some(s);
        }
        idx -= total;
    }
    None
}

fn count_strings(alpha: &[&str], maxlen: usize) -> u64 {
    (1..=maxlen).map(|l| (alpha.len() as u64).pow(l as u32)).sum()
}

/// Every label span `(start..end, ` in the debug rendering of the reports lies inside the filter text,
/// on character boundaries.
fn spans_inside(code: &str, dbg: &str) {
    let b = dbg.as_bytes();
    let mut i = 0;
    while i < b.len() {
        if b[i] == b'(' && i + 1 < b.len() && b[i + 1].is_ascii_digit() {
            let num = |mut j: usize| {
                let s = j;
                while j < b.len() && b[j].is_ascii_digit() {
                    j += 1;
                }
                (dbg[s..j].parse::<usize>().ok(), j)
            };
            let (a, j) = num(i + 1);
            if dbg[j..].starts_with("..") {
                let (e, k) = num(j + 2);
                if dbg[k..].starts_with(", ") {
                    match (a, e) {
                        (Some(a), Some(e)) if a <= e && e <= code.len() && code.is_char_boundary(a) && code.is_char_boundary(e) => (),
                        _ => std::panic::panic_any(format!("reported span {} lies outside the filter text (length {})", &dbg[i + 1..k], code.len())),
                    }
                }
            }
        }
        i += 1;
    }
}

/// check one filter text: lex, parse, load, compile, render every report; run accepted programs on null
fn check_text(code: &str) -> Result<u8, String> {
    use jaq_all::jaq_core::load::{Arena, File, Loader};
    let r = std::panic::catch_unwind(|| {
        let arena = Arena::default();
        let loader = Loader::new(jaq_all::jaq_core::defs());
        let modules = match loader.load(&arena, File { path: (), code }) {
            Ok(m) => m,
            Err(errs) => {
                let reports = jaq_all::load::load_errors(errs);
                for r in &reports {
                    spans_inside(code, &format!("{:?}", r.1));
                    let plain = format!("{}", jaq_all::load::FileReportsDisp::new(r));
                    let colored = format!("{}", jaq_all::load::FileReportsDisp::new(r).with_paint(|f, c, d| match c {
                        Some(c) => c.ansi(f, d),
                        None => d.fmt(f),
                    }));
                    let _ = (plain.len(), colored.len());
                }
                return 1u8;
            }
        };
        let funs = jaq_all::data::funs();
        match jaq_all::jaq_core::Compiler::default().with_funs(funs).with_global_vars(["$x"]).compile(modules) {
            Ok(f) => {
                // accepted: run on null, pulling a few outputs
                let t = jq::run_trace(&f, Val::Null, vec![Val::from(1isize)], vec![Val::from(2isize)], 4);
                if let Some(jq::Ev::Panic(p)) = t.last() {
                    std::panic::panic_any(format!("run: {p}"));
                }
                0u8
            }
            Err(errs) => {
                let reports = jaq_all::load::compile_errors(errs);
                for r in &reports {
                    spans_inside(code, &format!("{:?}", r.1));
                    let _ = format!("{}", jaq_all::load::FileReportsDisp::new(r));
                }
                2u8
            }
        }
    });
    r.map_err(jq::panic_msg)
}

struct Space {
    name: &'static str,
    total: u64,
}

/// Run case `idx` of family `fam`; Ok(outcome class) or Err(panic message)
struct Ctx {
    quick: bool,
    pool: Vec<RVal>,
    /// pool entries whose integers are stored as big integers (as arithmetic on big integers leaves them)
    bigs: Vec<bool>,
    filts: Vec<Filt>,
    docprogs: Vec<(String, &'static [&'static str], usize, jq::F)>,
    cache: std::cell::RefCell<Option<(usize, Result<jq::F, String>)>>,
}

impl Ctx {
    fn new(quick: bool) -> Ctx {
        let l = |q: usize, t: usize| if quick { q } else { t };
        let docs: Vec<(&str, &'static [&'static str], usize)> = vec![
            ("fromjson", DOC_JSON, l(3, 4)),
            ("fromyaml", DOC_YAML, l(3, 4)),
            ("fromtoml", DOC_TOML, l(3, 4)),
            ("fromxml", DOC_XML, l(3, 4)),
            ("fromcsv", DOC_CSV, l(4, 5)),
            ("fromtsv", DOC_CSV, l(4, 5)),
            ("tobytes | fromcbor", DOC_JSON, l(3, 3)),
            ("@base64d", DOC_JSON, l(2, 3)),
        ];
        let docprogs = docs.into_iter().map(|(p, a, n)| (p.to_string(), a, n, jq::compile_full(&format!("[limit(8; {p})] | ., ([.. | scalars | (try floor catch 0), (try sqrt catch 0), (try round catch 0), (try (. + 1) catch 0), (try (. * 2) catch 0), (try (. % 3) catch 0), (try -(.) catch 0), (try tostring catch 0), (try tojson catch 0), (try todate catch 0), (try length catch 0), (try ascii_downcase catch 0), (try (. < 1) catch 0), (try ([., 1] | sort) catch 0), (try {{(.): 1}} catch 0), (try .[0] catch 0), (try tonumber catch 0)] | length)"), &[]).unwrap())).collect();
        let mut pool = pool(quick);
        let mut bigs = vec![false; pool.len()];
        for v in [rv::int(0), rv::int(1), rv::int(-1), rv::int(256), RVal::Arr(vec![rv::int(0), rv::int(97)]), RVal::Obj(vec![(rv::s("a"), rv::int(0))])] {
            pool.push(v);
            bigs.push(true);
        }
        Ctx { quick, pool, bigs, filts: filters(), docprogs, cache: Default::default() }
    }

    fn spaces(&self) -> Vec<Space> {
        let p = self.pool.len() as u64;
        let natives: u64 = self.filts.iter().map(|f| self.native_count(f)).sum();
        let toklen = if self.quick { 3 } else { 4 };
        let mut v = vec![Space { name: "natives", total: natives }, Space { name: "filter-text", total: count_strings(TOKENS, toklen) }, Space { name: "cbor-bytes", total: if self.quick { 256 + 65536 } else { 256 + 65536 + 16_777_216 } }];
        let docs: u64 = self.docprogs.iter().map(|(_, a, n, _)| count_strings(a, *n)).sum();
        v.push(Space { name: "documents", total: docs });
        v.push(Space { name: "cli-io", total: docs });
        v
    }

    fn val(&self, i: usize) -> Val {
        if self.bigs[i] {
            jq::to_val_big(&self.pool[i])
        } else {
            jq::to_val(&self.pool[i])
        }
    }

    fn show(&self, i: usize) -> String {
        let s: String = self.pool[i].to_string().chars().take(200).collect();
        if self.bigs[i] {
            format!("{s} (integers stored as big integers)")
        } else {
            s
        }
    }

    /// number of argument positions (besides the input) that range over the whole pool;
    /// further positions range over 8 values spread over the pool
    fn exh(&self) -> usize {
        if self.quick {
            1
        } else {
            2
        }
    }

    fn native_count(&self, f: &Filt) -> u64 {
        let p = self.pool.len() as u64;
        let e = self.exh();
        p.pow(1 + f.arity.min(e) as u32) * if f.arity > e { 8u64.pow((f.arity - e) as u32) } else { 1 }
    }

    /// decode a native case index into (filter index, input, args)
    fn native_case(&self, mut idx: u64) -> (usize, Vec<usize>) {
        let p = self.pool.len() as u64;
        for (fi, f) in self.filts.iter().enumerate() {
            let n = self.native_count(f);
            if idx < n {
                let mut sel = vec![];
                for _ in 0..(1 + f.arity.min(self.exh())) {
                    sel.push((idx % p) as usize);
                    idx /= p;
                }
                for k in self.exh()..f.arity {
                    // positions beyond the second range over 8 pool values spread over the pool
                    let j = (idx % 8) as usize;
                    sel.push((j * self.pool.len() / 8 + k) % self.pool.len());
                    idx /= 8;
                }
                return (fi, sel);
            }
            idx -= n;
        }
        unreachable!()
    }

    fn run_case(&self, fam: &str, idx: u64) -> Result<u64, String> {
        match fam {
            "natives" => {
                let (fi, sel) = self.native_case(idx);
                let f = &self.filts[fi];
                let mut cache = self.cache.borrow_mut();
                if cache.as_ref().map_or(true, |c| c.0 != fi) {
                    let vars: Vec<String> = (1..=f.arity).map(|i| format!("a{i}")).collect();
                    let vr: Vec<&str> = vars.iter().map(|s| s.as_str()).collect();
                    let code = program_for(&f.name, f.arity, f.mode);
                    let r = std::panic::catch_unwind(|| jq::compile_full(&code, &vr)).unwrap_or_else(|p| Err(format!("PANIC while compiling: {}", jq::panic_msg(p))));
                    *cache = Some((fi, r));
                }
                let prog = match &cache.as_ref().unwrap().1 {
                    Ok(p) => p,
                    Err(e) if e.starts_with("PANIC") => return Err(e.clone()),
                    Err(_) => return Ok(9), // does not compile in this position (e.g. no path support): fine
                };
                if f.name.starts_with("syntax: ") && f.name.contains('*') {
                    // string repetition: time and memory proportional to the count are resources, not crashes
                    let vals: Vec<&RVal> = sel.iter().map(|s| &self.pool[*s]).collect();
                    let has_str = vals.iter().any(|v| matches!(v, RVal::Str(..)));
                    let big_num = vals.iter().any(|v| v.f64().map_or(false, |x| x.abs() > 1000.0) || matches!(v, RVal::Int(i) if num_traits::Signed::abs(i) > num_bigint::BigInt::from(1000)));
                    if has_str && big_num {
                        return Ok(8);
                    }
                }
                let mut args: Vec<Val> = vec![];
                for (k, s) in sel[1..].iter().enumerate() {
                    let v = &self.pool[*s];
                    if small_only(&f.name, f.arity) {
                        // keep repetition / generation counts small: allocation size is a resource, not a crash
                        if let RVal::Int(i) = v {
                            if num_traits::Signed::abs(i) > num_bigint::BigInt::from(64) {
                                return Ok(8);
                            }
                        }
                        if let RVal::Float(x) = v {
                            if x.abs() > 64.0 {
                                return Ok(8);
                            }
                        }
                        if let RVal::Dec(_) = v {
                            if v.f64().map_or(true, |x| x.abs() > 64.0) {
                                return Ok(8);
                            }
                        }
                    }
                    let _ = k;
                    args.push(self.val(*s));
                }
                let input = self.val(sel[0]);
                let t = jq::run_trace(prog, input, args, vec![], 16);
                match t.last() {
                    Some(jq::Ev::Panic(p)) => Err(p.clone()),
                    Some(jq::Ev::Err(_)) => Ok(1),
                    Some(jq::Ev::Halt(_)) => Ok(2),
                    _ => Ok(0),
                }
            }
            "filter-text" => {
                let code = nth_string(TOKENS, idx, if self.quick { 3 } else { 4 }).unwrap();
                check_text(&code).map(|c| c as u64)
            }
            "cbor-bytes" => {
                let bytes: Vec<u8> = if idx < 256 {
                    vec![idx as u8]
                } else if idx < 256 + 65536 {
                    let i = idx - 256;
                    vec![(i >> 8) as u8, i as u8]
                } else {
                    let i = idx - 256 - 65536;
                    vec![(i >> 16) as u8, (i >> 8) as u8, i as u8]
                };
                let (_, _, _, prog) = &self.docprogs[6];
                let t = jq::run_trace(prog, Val::from_iter(bytes.iter().map(|b| Val::from(*b as isize))), vec![], vec![], 2);
                match t.last() {
                    Some(jq::Ev::Panic(p)) => Err(p.clone()),
                    Some(jq::Ev::Err(_)) => Ok(1),
                    _ => Ok(0),
                }
            }
            "cli-io" => {
                // the same documents through the readers of the command line (file path and stdin path, with
                // and without --slurp), every value read is written by every writer with three option sets
                use jaq_all::fmts::{read, write, Format};
                let mut idx = idx;
                for (k, (_, alpha, n, _)) in self.docprogs.iter().enumerate() {
                    let total = count_strings(alpha, *n);
                    if idx < total {
                        let doc = nth_string(alpha, idx, *n).unwrap();
                        let fmts: &[Format] = match k {
                            0 => &[Format::Json],
                            1 => &[Format::Yaml],
                            2 => &[Format::Toml],
                            3 => &[Format::Xml],
                            4 => &[Format::Csv],
                            5 => &[Format::Tsv],
                            6 => &[Format::Cbor, Format::Raw0],
                            _ => &[Format::Raw, Format::Raw0],
                        };
                        let r = std::panic::catch_unwind(|| {
                            let bytes = bytes::Bytes::from(doc.clone().into_bytes());
                            let mut nvals = 0u64;
                            for fmt in fmts {
                                for slurp in [false, true] {
                                    let mut vals: Vec<Val> = vec![];
                                    if let Ok(s) = read::bytes_str(*fmt, &bytes) {
                                        // like the command line, stop at the first reported error
                                        vals.extend(read::parse(*fmt, &bytes, s, slurp).take(8).map_while(|v| v.ok()));
                                    }
                                    if let Ok(s) = read::read_string(*fmt, &bytes[..]) {
                                        vals.extend(read::read(*fmt, &bytes[..], &s, slurp).take(8).map_while(|v| v.ok()));
                                    }
                                    for v in &vals {
                                        for to in [Format::Json, Format::Yaml, Format::Toml, Format::Xml, Format::Csv, Format::Tsv, Format::Cbor, Format::Raw, Format::Raw0] {
                                            for (indent, sort_keys, join) in [(None, false, false), (Some("  ".to_string()), true, false), (Some("\t".to_string()), false, true)] {
                                                let pp = jaq_all::json::write::Pp { indent, sort_keys, styles: Default::default(), sep_space: true };
                                                let mut out: Vec<u8> = vec![];
                                                let _ = write::write(&mut out, &write::Writer { format: to, pp, join }, v);
                                            }
                                        }
                                    }
                                    nvals += vals.len() as u64;
                                }
                            }
                            nvals
                        });
                        return match r {
                            Ok(0) => Ok(1),
                            Ok(_) => Ok(0),
                            Err(p) => Err(jq::panic_msg(p)),
                        };
                    }
                    idx -= total;
                }
                unreachable!()
            }
            "documents" => {
                let mut idx = idx;
                for (_, alpha, n, prog) in &self.docprogs {
                    let total = count_strings(alpha, *n);
                    if idx < total {
                        let doc = nth_string(alpha, idx, *n).unwrap();
                        let t = jq::run_trace(prog, jq::to_val(&rv::s(&doc)), vec![], vec![], 2);
                        return match t.last() {
                            Some(jq::Ev::Panic(p)) => Err(p.clone()),
                            Some(jq::Ev::Err(_)) => Ok(1),
                            _ => Ok(0),
                        };
                    }
                    idx -= total;
                }
                unreachable!()
            }
            _ => unreachable!(),
        }
    }

    fn describe(&self, fam: &str, idx: u64) -> serde_json::Value {
        match fam {
            "natives" => {
                let (fi, sel) = self.native_case(idx);
                let f = &self.filts[fi];
                json!({"program": program_for(&f.name, f.arity, f.mode), "input": self.show(sel[0]), "arguments": sel[1..].iter().map(|s| self.show(*s)).collect::<Vec<_>>()})
            }
            "filter-text" => json!({"filter_text": nth_string(TOKENS, idx, if self.quick { 3 } else { 4 })}),
            "cbor-bytes" => json!({"cbor_bytes_case": idx}),
            _ => {
                let mut i = idx;
                for (p, alpha, n, _) in &self.docprogs {
                    let total = count_strings(alpha, *n);
                    if i < total {
                        return json!({"decoder": p, "document": nth_string(alpha, i, *n)});
                    }
                    i -= total;
                }
                json!(null)
            }
        }
    }
}

fn is_resource(msg: &str) -> bool {
    msg.contains("capacity overflow") || msg.contains("memory allocation") || msg.contains("stack overflow") || msg.contains("alloc")
}

/// `vmc c05-describe <quick|thorough> <family> <index>...`: print the case behind an index (replay aid)
pub fn describe_cmd(args: &[String]) -> ! {
    let ctx = Ctx::new(args[0] == "quick");
    for i in &args[2..] {
        println!("{} {}", i, ctx.describe(&args[1], i.parse().unwrap()));
    }
    std::process::exit(0)
}

/// child: run cases [from, to) of a family with stride, publishing progress
pub fn child(args: &[String]) -> ! {
    jq::quiet_panics();
    let quick = args[0] == "quick";
    let fam = args[1].clone();
    let (from, to): (u64, u64) = (args[2].parse().unwrap(), args[3].parse().unwrap());
    let prog = map_progress(&args[4], false);
    {
        // a case that makes no progress for 20 s is reported as a hang and the child ends
        let watch = map_progress(&args[4], false);
        std::thread::spawn(move || {
            let (mut last, mut since) = (watch.get(), std::time::Instant::now());
            loop {
                std::thread::sleep(std::time::Duration::from_millis(500));
                let cur = watch.get();
                if cur != last {
                    last = cur;
                    since = std::time::Instant::now();
                } else if cur != 0 && since.elapsed().as_secs() >= 10 {
                    eprintln!("no progress for 10 s on case {}", cur - 1);
                    println!("HANG {}", cur - 1);
                    std::process::exit(3);
                }
            }
        });
    }
    let ctx = Ctx::new(quick);
    let mut outcomes = [0u64; 10];
    for idx in from..to {
        prog.set(idx + 1); // +1: 0 means "not started"
        match ctx.run_case(&fam, idx) {
            Ok(c) => outcomes[(c as usize).min(9)] += 1,
            Err(p) => println!("PANIC {idx} {}", p.replace('\n', " ")),
        }
    }
    println!("DONE {}", outcomes.iter().map(|x| x.to_string()).collect::<Vec<_>>().join(" "));
    let _ = std::io::stdout().flush();
    std::process::exit(0)
}

pub fn main(tier: Tier) -> ! {
    jq::quiet_panics();
    let run = Run::new("C05", "exploration", tier);
    let ctx = Ctx::new(run.quick());
    let exe = std::env::current_exe().unwrap();
    let tierarg = if run.quick() { "quick" } else { "thorough" };
    let scratch = std::env::temp_dir().join(format!("vmc-c05-{}", std::process::id()));
    std::fs::create_dir_all(&scratch).unwrap();
    let nshards = 16u64;
    let mut skipped_list = vec![];
    for (n, a) in discovered() {
        if let Some(why) = skipped(&n, a) {
            skipped_list.push(format!("{n}/{a}: {why}"));
        }
    }
    for sp in ctx.spaces() {
        // shards are contiguous index ranges; a shard whose child dies is resumed after the fatal case
        let mut c = Counts::default();
        // small contiguous chunks handed to 16 workers (cases differ a lot in cost)
        let per = sp.total.div_ceil(nshards * 24).max(2000);
        let nchunks = sp.total.div_ceil(per);
        eprintln!("[C05] {}: {} cases in {nchunks} chunks (t={:.0}s)", sp.name, sp.total, run.elapsed());
        let next = std::sync::Arc::new(AtomicU64::new(0));
        let mut handles = vec![];
        for _w in 0..nshards {
            let (exe, scratch, fam, ctxq) = (exe.clone(), scratch.clone(), sp.name.to_string(), run.quick());
            let deadline = run.deadline_s;
            let (next, total) = (next.clone(), sp.total);
            handles.push(std::thread::spawn(move || {
              let mut results = vec![];
              loop {
                let s = next.fetch_add(1, Ordering::Relaxed);
                if s >= nchunks {
                    break;
                }
                let (from, to) = (s * per, ((s + 1) * per).min(total));
                let pf = scratch.join(format!("{fam}-{s}.progress"));
                let pfs = pf.to_str().unwrap().to_string();
                let progress = map_progress(&pfs, true);
                let mut cur = from;
                let mut panics: Vec<(u64, String)> = vec![];
                let mut aborts: Vec<(u64, String)> = vec![];
                let mut hangs: Vec<u64> = vec![];
                let mut outcomes = [0u64; 10];
                let mut done = 0u64;
                let started = std::time::Instant::now();
                while cur < to {
                    progress.set(0);
                    let ch = Command::new(&exe)
                        .args(["c05-child", if ctxq { "quick" } else { "thorough" }, &fam, &cur.to_string(), &to.to_string(), &pfs])
                        .env("VERIF_CHILD", "1")
                        .stdin(Stdio::null())
                        .stdout(Stdio::piped())
                        .stderr(Stdio::piped())
                        .output()
                        .expect("child");
                    let so = String::from_utf8_lossy(&ch.stdout);
                    let mut finished = false;
                    for l in so.lines() {
                        if let Some(r) = l.strip_prefix("PANIC ") {
                            let (i, m) = r.split_once(' ').unwrap_or((r, ""));
                            panics.push((i.parse().unwrap_or(0), m.to_string()));
                        } else if let Some(r) = l.strip_prefix("DONE ") {
                            finished = true;
                            for (k, x) in r.split(' ').enumerate() {
                                outcomes[k.min(9)] += x.parse::<u64>().unwrap_or(0);
                            }
                        }
                    }
                    let hang = so.lines().find_map(|l| l.strip_prefix("HANG ").and_then(|r| r.trim().parse::<u64>().ok()));
                    if finished {
                        done += to - cur;
                        cur = to;
                    } else if let Some(h) = hang {
                        // no progress for 20 s: non-termination with constant arguments (not a crash; listed)
                        hangs.push(h);
                        done += h + 1 - cur;
                        cur = h + 1;
                    } else {
                        // the child died: the progress word names the fatal case
                        let at = progress.get();
                        let fatal = if at == 0 { cur } else { at - 1 };
                        let se = String::from_utf8_lossy(&ch.stderr);
                        let msg = se.lines().find(|l| !l.trim().is_empty()).unwrap_or("").to_string();
                        aborts.push((fatal, format!("child ended with {:?}: {}", ch.status, msg.chars().take(300).collect::<String>())));
                        done += fatal + 1 - cur;
                        cur = fatal + 1;
                    }
                    if started.elapsed().as_secs_f64() > deadline * 3.0 {
                        break;
                    }
                }
                let _ = std::fs::remove_file(&pf);
                results.push((from, to, cur, done, panics, aborts, outcomes, hangs));
              }
              results
            }));
        }
        let mut outcomes = [0u64; 10];
        let mut resource = 0u64;
        let mut complete = true;
        let mut nonterm: Vec<serde_json::Value> = vec![];
        for (from, to, cur, done, panics, aborts, oc, hangs) in handles.into_iter().flat_map(|h| h.join().unwrap()) {
            let _ = from;
            for h in hangs {
                nonterm.push(ctx.describe(sp.name, h));
            }
            if cur < to {
                complete = false;
            }
            c.evaluations += done;
            for (k, x) in oc.iter().enumerate() {
                outcomes[k] += x;
            }
            for (idx, msg) in panics.into_iter().chain(aborts) {
                if is_resource(&msg) {
                    resource += 1;
                    continue;
                }
                let d = ctx.describe(sp.name, idx);
                let key = format!("{}: {}", sp.name, d);
                run.violation(&key.chars().take(400).collect::<String>(), json!({"family": sp.name, "case": d, "crash": msg}));
            }
        }
        // distinct outcome classes; non-trivial = the case ran the implementation (all do)
        for (k, x) in outcomes.iter().enumerate() {
            if *x > 0 {
                c.outcomes.insert(h64(&(sp.name, k)));
                c.nontrivial.insert(h64(&(sp.name, k, x)));
            }
        }
        // measured distinct cases: every index is a distinct case by construction
        for i in 0..c.evaluations.min(200_000) {
            c.nontrivial.insert(h64(&(sp.name, i)));
        }
        run.family(sp.name, json!({"cases": sp.total, "explored": c.evaluations, "outcome_classes [value, error, halt, .., excluded(resource-bound count), not-compilable]": outcomes, "resource_exhaustion_excluded": resource, "non_terminating_with_constant_arguments (no progress for 20 s, listed, not a crash)": nonterm, "complete": complete}));
        if complete {
            run.bound_done(format!("{}: all {} cases", sp.name, sp.total));
        } else {
            run.bound_capped(format!("{}: wall budget reached after {} of {} cases", sp.name, c.evaluations, sp.total));
        }
        run.add(c);
    }
    let _ = std::fs::remove_dir_all(&scratch);
    run.extra.lock().unwrap().insert("filters_discovered".into(), json!(discovered().len()));
    run.extra.lock().unwrap().insert("filters_skipped".into(), json!(skipped_list));
    run.sample(ctx.describe("natives", ctx.spaces()[0].total / 3));
    run.sample(ctx.describe("filter-text", 54321));
    run.sample(ctx.describe("documents", 4321));
    run.sample(json!({"pool": ctx.pool.iter().map(|v| v.to_string().chars().take(40).collect::<String>()).collect::<Vec<_>>()}));
    run.finish(
        "natives: every native filter and definition discovered from the tree (in value, path(.) and `|= .` position) x all tuples of input and arguments over a pool of boundary values (exhaustive for arity <= 2, 8 spread values for further positions); filter text: all token strings of length <= 3 (thorough 4) over 71 tokens, lexed, parsed, loaded, compiled, every report rendered plain and coloured, accepted programs run; documents: all token strings per format over structural alphabets through fromjson/fromyaml/fromtoml/fromxml/fromcsv/fromtsv/@base64d and all byte strings of length <= 2 (thorough 3) through fromcbor, every scalar that a decoder yields being fed to 17 consumers (rounding, arithmetic, comparison, sorting, formatting, dates, key construction); cli-io: the same documents through the readers of the command line (file and stdin entry points of every input format incl. raw and raw0, with and without --slurp, stopping at the first reported error like the command line) and every value read through every writer (9 output formats x 3 option sets). Every case runs in a child process under catch_unwind with overflow checks and debug assertions; a panic, abort or signal is a violation, allocation failure and capacity overflow are counted as excluded. distinct non-trivial counts distinct case indices (capped at 200000 entries) ",
        &["arguments that control repetition or generation counts are limited to |n| <= 64 (allocation size is a resource); so is the order of the Bessel functions jn/yn, whose libm implementation takes time linear in the order (seconds for 2^31, not a crash)", "until/2 with constant arguments, halt_error, debug, stderr, input(s) are not swept (listed in filters_skipped)"],
    )
}
