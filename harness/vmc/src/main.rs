mod c01;
mod c02;
mod c03;
mod c04;
mod c05;
mod c06;
mod c07;
mod c08;
mod c09;
mod c10;
mod c11;
mod c12;
mod c13;
mod c14;
mod c15;
mod c16;
mod c17;
mod c18;
mod ext;
mod c20;
mod ev;
mod gen;
mod jq;
mod reval;
mod rparse;
mod rterm;
mod rval;
mod tracecmp;

use ev::Tier;

/// Per-thread live and peak heap bytes (used by C04; a thread-local add per allocation).
pub mod heap {
    use std::alloc::{GlobalAlloc, Layout, System};
    use std::cell::Cell;
    thread_local! {
        static LIVE: Cell<isize> = const { Cell::new(0) };
        static PEAK: Cell<isize> = const { Cell::new(0) };
    }
    pub struct Counting;
    fn add(n: isize) {
        let _ = LIVE.try_with(|l| {
            let v = l.get() + n;
            l.set(v);
            let _ = PEAK.try_with(|p| {
                if v > p.get() {
                    p.set(v)
                }
            });
        });
    }
    unsafe impl GlobalAlloc for Counting {
        unsafe fn alloc(&self, l: Layout) -> *mut u8 {
            add(l.size() as isize);
            System.alloc(l)
        }
        unsafe fn dealloc(&self, p: *mut u8, l: Layout) {
            add(-(l.size() as isize));
            System.dealloc(p, l)
        }
        unsafe fn realloc(&self, p: *mut u8, l: Layout, new: usize) -> *mut u8 {
            add(new as isize - l.size() as isize);
            System.realloc(p, l, new)
        }
    }
    /// (live, peak) of the calling thread
    pub fn read() -> (isize, isize) {
        (LIVE.with(|l| l.get()), PEAK.with(|p| p.get()))
    }
    /// restart peak tracking from the current live value
    pub fn reset_peak() {
        let l = LIVE.with(|l| l.get());
        PEAK.with(|p| p.set(l));
    }
}

#[global_allocator]
static GLOBAL: heap::Counting = heap::Counting;

fn main() {
    let args: Vec<String> = std::env::args().collect();
    let cmd = args.get(1).map(|s| s.as_str()).unwrap_or("");
    let tier = match args.get(2).map(|s| s.as_str()).or(std::env::var("VERIF_TIER").ok().as_deref()) {
        Some("thorough") => Tier::Thorough,
        _ => Tier::Quick,
    };
    rayon::ThreadPoolBuilder::new().stack_size(1 << 30).start_handler(|_| ev::thread_altstack()).build_global().expect("thread pool");
    if cmd != "c05-child" {
        ev::install_crash_handler();
    }
    match cmd {
        "c01" => c01::main(tier),
        "c02" => c02::main(tier),
        "c03" => c03::main(tier),
        "c04" => c04::main(tier),
        "c05" => c05::main(tier),
        "c05-child" => c05::child(&args[2..]),
        "c05-describe" => c05::describe_cmd(&args[2..]),
        "c06" => c06::main(tier),
        "list-filters" => {
            // every native filter and definition of the current tree as JSON [[name, arity], ...]
            let mut v: Vec<(String, usize)> = jaq_all::data::funs().map(|(n, a, _)| (n.to_string(), a.len())).collect();
            v.extend(jq::defdb().all_named());
            v.sort();
            v.dedup();
            println!("{}", serde_json::to_string(&v).unwrap());
        }
        "c07" => c07::main(tier),
        "c08" => c08::main(tier),
        "c09" => c09::main(tier),
        "c10" => c10::main(tier),
        "c11" => c11::main(tier),
        "c12" => c12::main(tier),
        "c13" => c13::main(tier),
        "c14" => c14::main(tier),
        "c15" => c15::main(tier),
        "c16" => c16::main(tier),
        "c17" => c17::main(tier),
        "c18" => c18::main(tier),
        "c20" => c20::main(tier),
        "eval" => {
            // vmc eval '<program>' '<input as jq program>' [inputs as jq programs...]
            jq::quiet_panics();
            let prog = &args[2];
            let input = args.get(3).map(|s| s.as_str()).unwrap_or("null");
            let t = rterm::parse_with_jaq(prog).expect("parse");
            println!("printed : {}", rterm::show(&t));
            let inv = eval_const(input);
            let inputs: Vec<rval::RVal> = args[4.min(args.len())..].iter().map(|s| eval_const(s)).collect();
            let env = reval::prelude_env();
            let o = reval::run_model(&t, &env, &inv, inputs.clone(), 64, 1_000_000);
            println!("model   : {}  undecided={:?}", jq::trace_json(&o.trace), o.undecided);
            match jq::compile(prog, &[]) {
                Ok(f) => {
                    let tr = jq::run_trace(&f, jq::to_val(&inv), vec![], inputs.iter().map(jq::to_val).collect(), 64);
                    println!("impl    : {}", jq::trace_json(&tr));
                    println!("verdict : {:?}", tracecmp::compare(&o, &tr));
                }
                Err(e) => println!("compile error: {e}"),
            }
        }
        _ => {
            eprintln!("usage: vmc <check> [quick|thorough]");
            std::process::exit(2);
        }
    }
}

pub fn eval_const(code: &str) -> rval::RVal {
    let f = jq::compile_full(code, &[]).expect("constant compiles");
    match jq::run_vals(&f, jaq_all::json::Val::Null, vec![], 1).expect("no panic").pop() {
        Some(Ok(v)) => jq::to_rval(&v),
        o => panic!("constant {code} gave {:?}", o.map(|r| r.map(|v| v.to_string()))),
    }
}
