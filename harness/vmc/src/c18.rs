//! C18 — --in-place replaces a file atomically and only after complete success.
//! Crash-point and fault enumeration at the system-call boundary (py/c18_inplace.py + tools/sysmon.c).
use crate::ev::{Run, Tier};
use crate::ext;

pub fn main(tier: Tier) -> ! {
    let run = Run::new("C18", "fault_enumeration", tier);
    let c = ext::run_python(&run, "c18_inplace.py", &[]);
    run.add(c);
    run.finish(
        "scenarios (1..3 files; output larger, smaller, equal, empty; filter error after 0/1 outputs; halt; parse error at value 0/1; failing second/third file; permission bits 0444/0600/0755; relative, ./, absolute and sub-directory paths; JSON/YAML/TOML) are run under a ptrace monitor. A dry run records the history of file-system and write system calls issued after the first input file is opened; the run is then repeated once per call with the process tree killed immediately before that call, once per (call, errno) with the call failing, and once per write with a short write. After every run the directory is examined: each input file holds its original bytes or exactly the bytes the same invocation without --in-place prints for it, a file is replaced only if the filter finished on it and every earlier file was replaced, a failing write never ends in status 0, and after a completed run permission bits are unchanged and no other directory entry exists. non-trivial = every run (each is a distinct crash point or fault)",
        &["a kill is modelled as the whole process tree disappearing before a system call; torn page-cache state after power loss is out of scope (jaq issues no fsync, and the property speaks of the process being killed)", "when the injected fault is the failure of unlink itself, a left-over temporary file is not counted", "x86_64 Linux system-call numbering"],
    )
}
