//! C14 — every supported data format round-trips values on its documented domain.
//! In-language identities on exhaustively placed string atoms (this file); independent readers and
//! the command-line options --to / --from (py/c14_readers.py).
use crate::ev::{h64, Counts, Run, Tier};
use crate::ext;
use crate::gen;
use crate::jq;
use crate::rval::{self as rv, RVal};
use jaq_all::json::Val;
use rayon::prelude::*;
use serde_json::json;

/// reserved words, indicators and number-like spellings of YAML
const YAML_ATOMS: &[&str] = &[
    "null", "Null", "~", "true", "True", "yes", "on", "y", "n", "no", "off", "1", "+1", "-1", ".5", "-.5", "+.5", "1.", "1e3", "1_0", "0x1F", "0o7", "0b1", ".inf", "-.inf", "+.inf", ".nan", ".NaN", "-", "?", ":", ",", "[", "]", "{", "}", "#", "&", "*", "!",
    "|", ">", "'", "\"", "%", "@", "`", "---", "...", "-a", "a-", "a:b", "a: b", "a #b", "#a", " a", "a ", "a\t", "\ta", "a\nb", "", "é", "\u{85}", "\u{feff}", "<<", "=", "- a", "? a", "a:", ":a", "a,b", "[a]", "{a}", "!!str a", "&a b", "*a", "12:30", "2001-01-01",
    "1e", "0.", "-", "--", "a\\b", "a\"b", "a'b", "\\n", "\u{7f}", "\u{1}", "0 ", " 0", "true ", "null\n", "𝄞", "a\r", "\n", " ", "  ",
];

fn obs_same(back: &RVal, orig: &RVal) -> bool {
    use RVal::*;
    match (back, orig) {
        (Dec(d), Float(x)) => d.parse::<f64>().map_or(false, |y| y.to_bits() == x.to_bits() || (y.is_nan() && x.is_nan())),
        // the spelling of an exponent (`1E5` / `1e5` / `1e+5`) is not part of the value
        (Dec(a), Dec(b)) => a == b || a.replace('E', "e").replace("e+", "e") == b.replace('E', "e").replace("e+", "e"),
        (Float(y), Float(x)) => y.to_bits() == x.to_bits() || (y.is_nan() && x.is_nan()),
        // formats that store binary floats read a decimal literal back as that float
        (Float(y), Dec(d)) => d.parse::<f64>().map_or(false, |x| y.to_bits() == x.to_bits()),
        (Arr(x), Arr(y)) => x.len() == y.len() && x.iter().zip(y).all(|(p, q)| obs_same(p, q)),
        (Obj(x), Obj(y)) => x.len() == y.len() && x.iter().zip(y).all(|(p, q)| obs_same(&p.0, &q.0) && obs_same(&p.1, &q.1)),
        _ => rv::same(back, orig),
    }
}

/// place an atom at every position of a small tree
fn placements(s: &RVal, partners: &[RVal]) -> Vec<RVal> {
    let mut v = vec![
        s.clone(),
        RVal::Arr(vec![s.clone()]),
        RVal::Arr(vec![RVal::Arr(vec![s.clone()])]),
        RVal::Obj(vec![(rv::s("k"), s.clone())]),
        RVal::Obj(vec![(s.clone(), rv::int(1))]),
        RVal::Obj(vec![(rv::s("k"), RVal::Obj(vec![(s.clone(), RVal::Arr(vec![s.clone()]))]))]),
        RVal::Arr(vec![RVal::Obj(vec![(rv::s("k"), s.clone())])]),
        RVal::Arr(vec![rv::int(1), s.clone(), RVal::Null]),
    ];
    for p in partners {
        v.push(RVal::Arr(vec![s.clone(), p.clone()]));
        v.push(RVal::Arr(vec![p.clone(), s.clone()]));
        if !rv::eq(s, p) {
            v.push(RVal::Obj(vec![(s.clone(), p.clone())]));
            v.push(RVal::Obj(vec![(p.clone(), s.clone()), (s.clone(), p.clone())]));
        }
    }
    v
}

struct Fmt {
    name: &'static str,
    /// round-trip program yielding [encoded-ok?, decoded values...]
    prog: &'static str,
}

fn check_roundtrip(run: &Run, c: &mut Counts, f: &jq::F, fmt: &str, v: &RVal, expect: Expect) {
    let key = format!("{fmt}: {v}");
    let out = jq::run_vals(f, jq::to_val(v), vec![], 4);
    c.case(h64(&key), !matches!(v, RVal::Null), h64(&(fmt, v.type_name(), matches!(expect, Expect::Identity))));
    c.transitions += 2;
    let res: Result<Vec<RVal>, String> = match &out {
        Ok(o) => {
            let mut vals = vec![];
            let mut err = None;
            for x in o {
                match x {
                    Ok(v) => vals.push(jq::to_rval(v)),
                    Err(e) => err = Some(jq::ev_json(e).to_string()),
                }
            }
            match err {
                Some(e) => Err(e),
                None => Ok(vals),
            }
        }
        Err(p) => Err(format!("panic: {p}")),
    };
    let bad = match (&expect, &res) {
        (Expect::Identity, Ok(vals)) => !(vals.len() == 1 && obs_same(&vals[0], v)),
        (Expect::Identity, Err(_)) => true,
        // outside the domain: an error, or (if written at all) the same value back — never a wrong value
        (Expect::ErrorOrSame, Ok(vals)) => !(vals.len() == 1 && obs_same(&vals[0], v)),
        (Expect::ErrorOrSame, Err(e)) => e.contains("panic"),
        (Expect::Error, Ok(_)) => true,
        (Expect::Error, Err(e)) => e.contains("panic"),
    };
    if bad {
        run.violation(&key, json!({"format": fmt, "value": v.to_string(), "expected": format!("{expect:?}"), "got": match &res { Ok(v) => format!("{:?}", v.iter().map(|x| x.to_string()).collect::<Vec<_>>()), Err(e) => e.clone() }}));
    }
}

#[derive(Debug, Clone, Copy)]
enum Expect {
    Identity,
    ErrorOrSame,
    Error,
}

fn has_invalid_utf8(v: &RVal) -> bool {
    match v {
        RVal::Str(b, false) => std::str::from_utf8(b).is_err(),
        RVal::Arr(a) => a.iter().any(has_invalid_utf8),
        RVal::Obj(o) => o.iter().any(|(k, v)| has_invalid_utf8(k) || has_invalid_utf8(v)),
        _ => false,
    }
}

fn any_node(v: &RVal, p: &dyn Fn(&RVal) -> bool) -> bool {
    p(v) || match v {
        RVal::Arr(a) => a.iter().any(|x| any_node(x, p)),
        RVal::Obj(o) => o.iter().any(|(k, x)| any_node(k, p) || any_node(x, p)),
        _ => false,
    }
}

fn toml_domain(v: &RVal) -> bool {
    fn ok(v: &RVal) -> bool {
        match v {
            RVal::Null => false,
            RVal::Str(_, true) => false,
            RVal::Str(b, false) => std::str::from_utf8(b).is_ok(),
            RVal::Int(i) => num_traits::ToPrimitive::to_i64(i).is_some(),
            RVal::Dec(_) | RVal::Float(_) | RVal::Bool(_) => true,
            RVal::Arr(a) => a.iter().all(ok),
            RVal::Obj(o) => o.iter().all(|(k, x)| matches!(k, RVal::Str(b, false) if std::str::from_utf8(b).is_ok()) && ok(x)),
        }
    }
    matches!(v, RVal::Obj(_)) && ok(v)
}

pub fn main(tier: Tier) -> ! {
    jq::quiet_panics();
    let run = Run::new("C14", "model_checking", tier);
    let fmts = [
        Fmt { name: "yaml", prog: "toyaml | fromyaml" },
        Fmt { name: "cbor", prog: "tocbor | fromcbor" },
        Fmt { name: "toml", prog: "totoml | fromtoml" },
        Fmt { name: "json", prog: "tojson | fromjson" },
    ];
    let progs: Vec<jq::F> = fmts.iter().map(|f| jq::compile_full(f.prog, &[]).unwrap()).collect();

    // ---------------------------------------------------------- values: atoms at every position + one scalar of every kind
    let atoms: Vec<RVal> = YAML_ATOMS.iter().map(|s| rv::s(s)).collect();
    let partners: Vec<RVal> = if run.quick() { ["true", "1", " a", "a ", "-", "", ": "].iter().map(|s| rv::s(s)).collect() } else { atoms.clone() };
    let mut values: Vec<RVal> = vec![];
    for a in &atoms {
        values.extend(placements(a, &partners));
    }
    for n in gen::nums() {
        values.push(n.clone());
        values.push(RVal::Arr(vec![n.clone()]));
        values.push(RVal::Obj(vec![(n.clone(), n.clone())]));
        values.push(RVal::Obj(vec![(rv::s("k"), n)]));
    }
    for s in gen::strs() {
        values.extend(placements(&s, &partners[..2.min(partners.len())]));
    }
    for k in [RVal::Null, RVal::Bool(true), RVal::Arr(vec![]), RVal::Arr(vec![rv::int(1)]), RVal::Obj(vec![]), RVal::Obj(vec![(rv::s("a"), rv::int(1))]), RVal::Float(1.5), rv::bs(b"k")] {
        values.push(RVal::Obj(vec![(k.clone(), rv::int(1)), (rv::s("z"), k.clone())]));
        values.push(k);
    }
    {
        let mut seen = std::collections::HashSet::new();
        values.retain(|v| seen.insert(format!("{v:?}")));
    }
    eprintln!("[C14] {} values", values.len());
    let c = values
        .par_chunks(128)
        .map(|ch| {
            let mut c = Counts::default();
            for v in ch {
                let inv = has_invalid_utf8(v);
                // YAML: all values (invalid UTF-8 cannot be parsed back: documented)
                check_roundtrip(&run, &mut c, &progs[0], "yaml", v, if inv { Expect::ErrorOrSame } else { Expect::Identity });
                // CBOR: all values except invalid UTF-8 (replaced) — decimal spelling is not preserved (compared up to IEEE value)
                if !inv {
                    check_roundtrip(&run, &mut c, &progs[1], "cbor", v, Expect::Identity);
                }
                // TOML: objects with string keys, no null / bytes / big integers
                let td = toml_domain(v);
                let too_big = any_node(v, &|x| matches!(x, RVal::Int(i) if num_traits::ToPrimitive::to_i64(i).is_none()));
                let nonfinite_key = false;
                let _ = nonfinite_key;
                // decimal literals beyond the range of a double cannot be read back as TOML floats
                let huge_dec = any_node(v, &|x| matches!(x, RVal::Dec(_)) && x.f64().map_or(false, |f| !f.is_finite()));
                if !inv {
                    // (invalid UTF-8 is replaced when writing TOML: documented)
                    check_roundtrip(&run, &mut c, &progs[2], "toml", v, if td && !huge_dec { Expect::Identity } else if too_big || (td && huge_dec) { Expect::ErrorOrSame } else { Expect::Error });
                }
            }
            c
        })
        .reduce(Counts::default, Counts::merge);
    run.family("yaml/cbor/toml identities", json!({"values": values.len(), "string_atoms": YAML_ATOMS.len(), "cases": c.evaluations}));
    run.add(c);
    run.bound_done(format!("{} string atoms at every position of a depth-2 tree (with {} partner atoms for adjacent pairs), one scalar of every kind, non-string keys: {} values x yaml, cbor, toml", YAML_ATOMS.len(), partners.len(), values.len()));

    // ---------------------------------------------------------- rows for CSV / TSV
    let field_atoms: Vec<RVal> = vec![
        RVal::Null, RVal::Bool(true), RVal::Bool(false), rv::int(1), rv::int(-1), RVal::Float(1.5), RVal::Dec("1.0".into()), RVal::Float(f64::INFINITY), RVal::Float(f64::NAN), gen::big("18446744073709551616"),
        rv::s(""), rv::s("a"), rv::s(","), rv::s("\""), rv::s("\n"), rv::s("\r"), rv::s("\t"), rv::s("\\"), rv::s("true"), rv::s("1"), rv::s("1.0"), rv::s("\"\""), rv::s(" a "), rv::s("a,b\"c\nd"), rv::s("é"), rv::s("null"), rv::s("Infinity"), rv::s("-1"), rv::s("+1"), rv::s("\\n"), rv::s("\u{0}"), rv::s("NaN"), rv::s("0x1"),
    ];
    let maxrow = if run.quick() { 2 } else { 3 };
    let mut rows: Vec<Vec<RVal>> = vec![vec![]];
    let mut frontier: Vec<Vec<RVal>> = vec![vec![]];
    for _ in 0..maxrow {
        let mut nf = vec![];
        for r in &frontier {
            for a in &field_atoms {
                let mut r2 = r.clone();
                r2.push(a.clone());
                nf.push(r2);
            }
        }
        rows.extend(nf.iter().cloned());
        frontier = nf;
    }
    let csv = jq::compile_full("tocsv | fromcsv", &[]).unwrap();
    let tsv = jq::compile_full("totsv | fromtsv", &[]).unwrap();
    let csv_at = jq::compile_full("(tocsv == @csv) and (totsv == @tsv)", &[]).unwrap();
    let c = rows
        .par_chunks(256)
        .map(|ch| {
            let mut c = Counts::default();
            for r in ch {
                let v = RVal::Arr(r.clone());
                // CSV: rows of scalars ([] vs [null] excepted); a NaN field reads back as NaN
                let csv_exc = r.is_empty() || (r.len() == 1 && matches!(r[0], RVal::Null));
                if !csv_exc {
                    check_roundtrip(&run, &mut c, &csv, "csv", &v, Expect::Identity);
                }
                // TSV: rows of non-empty strings that do not spell a number or boolean
                let tsv_dom = !r.is_empty()
                    && r.iter().all(|f| match f {
                        RVal::Str(b, false) => {
                            let t = String::from_utf8_lossy(b);
                            !b.is_empty() && !["true", "false", "null", "Infinity", "NaN"].contains(&t.as_ref()) && t.trim_start_matches(['+', '-']).chars().next().map_or(true, |ch| !ch.is_ascii_digit())
                        }
                        _ => false,
                    });
                if tsv_dom {
                    check_roundtrip(&run, &mut c, &tsv, "tsv", &v, Expect::Identity);
                }
                if let Err(why) = jq::law_holds(&csv_at, jq::to_val(&v), vec![]) {
                    run.violation(&format!("@csv/@tsv == tocsv/totsv: {v}"), json!({"row": v.to_string(), "why": why}));
                }
            }
            c
        })
        .reduce(Counts::default, Counts::merge);
    run.family("csv/tsv rows", json!({"rows": rows.len(), "field_atoms": field_atoms.len(), "cases": c.evaluations}));
    run.add(c);
    // outside the tabular domain: nested arrays and objects must be rejected
    let mut c = Counts::default();
    for v in [RVal::Arr(vec![RVal::Arr(vec![rv::int(1)])]), RVal::Arr(vec![RVal::Obj(vec![])]), rv::int(1), RVal::Obj(vec![]), RVal::Arr(vec![rv::bs(b"a")])] {
        check_roundtrip(&run, &mut c, &csv, "csv", &v, if matches!(&v, RVal::Arr(a) if matches!(a[0], RVal::Str(..))) { Expect::ErrorOrSame } else { Expect::Error });
        check_roundtrip(&run, &mut c, &tsv, "tsv", &v, if matches!(&v, RVal::Arr(a) if matches!(a[0], RVal::Str(..))) { Expect::ErrorOrSame } else { Expect::Error });
    }
    run.add(c);
    run.bound_done(format!("all rows of <= {maxrow} fields over {} field atoms x csv, tsv", field_atoms.len()));

    // ---------------------------------------------------------- XML: fromxml | toxml | fromxml == fromxml
    let xtoks: Vec<&str> = vec!["<a>", "</a>", "<b/>", "<a x=\"1\">", "<a y='&amp;'>", "t", "&lt;", "<!--c-->", "<![CDATA[d]]>", "<?pi c?>", "<?xml version=\"1.0\"?>", "<!DOCTYPE a>", "<!DOCTYPE a [ <!ENTITY e \"v\"> ]>", " ", "\n", "<c:d e:f=\"g\"/>", "é"];
    let xl = if run.quick() { 4 } else { 5 };
    let xf = jq::compile_full("[fromxml] as $x | ($x | toxml) as $t | [$t | fromxml] == $x", &[]).unwrap();
    let xparse = jq::compile_full("[fromxml] | length", &[]).unwrap();
    let total: u64 = (1..=xl).map(|l| (xtoks.len() as u64).pow(l as u32)).sum();
    let (c, wf) = (0..total)
        .into_par_iter()
        .fold(
            || (Counts::default(), 0u64),
            |(mut c, mut wf), mut idx| {
                let mut l = 1;
                loop {
                    let n = (xtoks.len() as u64).pow(l as u32);
                    if idx < n {
                        break;
                    }
                    idx -= n;
                    l += 1;
                }
                let mut text = String::new();
                for _ in 0..l {
                    text.push_str(xtoks[(idx % xtoks.len() as u64) as usize]);
                    idx /= xtoks.len() as u64;
                }
                let input = jq::to_val(&rv::s(&text));
                // only well-formed documents are in the domain: those the reader accepts
                let parsed = matches!(jq::run_vals(&xparse, input.clone(), vec![], 2), Ok(o) if o.len() == 1 && o[0].is_ok());
                let key = format!("xml {text:?}");
                c.case(h64(&key), parsed, h64(&(l, parsed)));
                if parsed {
                    wf += 1;
                    c.transitions += 1;
                    if let Err(why) = jq::law_holds(&xf, input, vec![]) {
                        run.violation(&key, json!({"document": text, "law": "fromxml | toxml | fromxml == fromxml", "why": why}));
                    }
                }
                (c, wf)
            },
        )
        .reduce(|| (Counts::default(), 0), |a, b| (a.0.merge(b.0), a.1 + b.1));
    run.family("xml documents", json!({"token_strings": total, "accepted_by_reader": wf, "tokens": xtoks.len(), "max_tokens": xl}));
    run.add(c);
    run.bound_done(format!("all XML token strings of <= {xl} tokens over {} tokens ({wf} accepted documents)", xtoks.len()));

    // ---------------------------------------------------------- container sizes around the length encodings and buffer limits
    // (CBOR encodes lengths in 0, 1, 2, 4 bytes; readers pre-allocate with caps; texts grow past buffer sizes)
    let sizes: Vec<i64> = if run.quick() { vec![0, 1, 23, 24, 25, 255, 256, 257, 1023, 1024, 1025, 4097] } else { vec![0, 1, 23, 24, 25, 255, 256, 257, 1023, 1024, 1025, 4095, 4096, 4097, 65535, 65536, 65537, 100000] };
    let shapes = [
        ("array of integers", "[range($n)]"),
        ("array of strings", "[range($n) | tostring]"),
        ("object", "[range($n) | {key: \"k\\(.)\", value: .}] | from_entries"),
        ("nested", "{a: [range($n)], b: {c: [range($n) | [.]]}}"),
        ("string of length n", "[range($n) | \"a\"] | add // \"\""),
        ("byte string of length n", "[range($n) | \"a\"] | add // \"\" | tobytes"),
    ];
    let trips = [("cbor", "tocbor | fromcbor"), ("yaml", "toyaml | fromyaml"), ("json", "tojson | fromjson"), ("toml", "{v: .} | totoml | fromtoml | .v")];
    let mut c = Counts::default();
    for (sname, shape) in shapes {
        for (fname, trip) in trips {
            if fname == "toml" && sname.starts_with("byte") || fname != "cbor" && sname.starts_with("byte") {
                continue; // byte strings are outside the documented domain of the text formats
            }
            let law = jq::compile_full(&format!("({shape}) as $v | ($v | {trip}) == $v"), &["n"]).unwrap_or_else(|e| panic!("{sname}/{fname}: {e}"));
            for &n in &sizes {
                let key = format!("size: {sname} of {n} through {fname}");
                c.case(h64(&key), n > 0, h64(&(sname, fname)));
                if let Err(why) = jq::law_holds(&law, Val::Null, vec![Val::from(n as isize)]) {
                    run.violation(&key, json!({"shape": shape, "n": n, "round_trip": trip, "why": why}));
                }
            }
        }
    }
    run.family("container sizes", json!({"sizes": sizes, "shapes": shapes.len(), "formats": trips.len(), "cases": c.evaluations}));
    run.bound_done(format!("{} shapes x {} sizes around length-encoding and buffer boundaries through CBOR, YAML, JSON, TOML", shapes.len(), sizes.len()));
    run.add(c);

    // ---------------------------------------------------------- independent readers and the command line
    let c = ext::run_python(&run, "c14_readers.py", &[]);
    run.add(c);
    run.sample(json!({"yaml_atoms": YAML_ATOMS, "placements_of": "true", "example": placements(&rv::s("true"), &[rv::s("a ")]).iter().map(|v| v.to_string()).collect::<Vec<_>>()}));
    run.sample(json!({"xml_tokens": xtoks}));

    run.finish(
        "string atoms chosen from each format's reserved words, indicators and number-like spellings (98 for YAML) are placed at every position of a depth-2 tree (root, array element, nested, object value, object key, adjacent pairs), together with one scalar of every kind and non-string keys; to<F> | from<F> must be the identity on the format's documented domain (observation-equal) and an error — never a wrong value — outside it, for YAML, CBOR and TOML; all rows of <= 2 (thorough 3) fields over 33 field atoms for CSV and TSV; every XML token string of <= 4 (thorough 5) tokens accepted by the reader must satisfy fromxml | toxml | fromxml == fromxml; independent readers (PyYAML, tomllib, csv, minidom, json) must recover the same data from what jaq writes and --to F | --from F must agree with the filters. non-trivial = value other than null / accepted document",
        &["documented exceptions: invalid UTF-8 (YAML cannot re-read it, CBOR/TOML replace it), CBOR decimal spelling (compared by IEEE value), CSV [] vs [null], TSV typing"],
    )
}
