//! C13 — string codecs invert exactly; positions count characters; escaping is safe.
//! In-language round trips and regex position laws on exhaustively enumerated strings (this file),
//! independent consumers of the escaping formatters and decoders (py/c13_consumers.py).
use crate::ev::{h64, Counts, Run, Tier};
use crate::ext;
use crate::jq;
use crate::rval::{self as rv, RVal};
use jaq_all::json::Val;
use rayon::prelude::*;
use serde_json::json;

const SYMS: &[&[u8]] = &[
    b"'", b"\"", b"\\", b"$", b"`", b" ", b"\t", b"\n", b"\r", b",", b";", b"&", b"<", b">", b"%", b"+", b"=", b"/", b"?", b"#", b"-", b"!", b"*", b"(", b"a", b"A", "é".as_bytes(), "€".as_bytes(), "😀".as_bytes(), b"\xff", b"\x00", b"~",
    // spellings that the decoders give a meaning to, and their tails (so that e.g. "&amp;lt;" is formed)
    b"&lt;", b"&amp;", b"lt;", b"amp;", b"&#39;", b"&quot;", b"%41", b"%c3%a9", b"41", b"QQ==", b"\\n", b"\\u0041", b"''", b"\"\"",
];

fn strings(alpha: &[&[u8]], maxlen: usize) -> Vec<Vec<u8>> {
    let mut out: Vec<Vec<u8>> = vec![vec![]];
    let mut frontier: Vec<Vec<u8>> = vec![vec![]];
    for _ in 0..maxlen {
        let mut nf = Vec::with_capacity(frontier.len() * alpha.len());
        for s in &frontier {
            for a in alpha {
                let mut s2 = s.clone();
                s2.extend_from_slice(a);
                nf.push(s2);
            }
        }
        out.extend(nf.iter().cloned());
        frontier = nf;
    }
    out
}

/// round-trip laws on a text string (input `.`)
const TEXT_LAWS: &[(&str, &str)] = &[
    ("explode|implode", "(explode | implode) == . and ((explode | implode) | tobytes) == tobytes"),
    ("tobytes|tostring", "(tobytes | tostring) == . and (tobytes | tostring | tobytes) == tobytes"),
    ("@base64|@base64d", "((@base64 | @base64d) | tobytes) == tobytes"),
    ("@uri|@urid", "((@uri | @urid) | tobytes) == tobytes"),
    ("@html|@htmld", "((@html | @htmld) | tobytes) == tobytes"),
    ("@json|fromjson", "(@json | fromjson) == . and @json == tojson and @text == tostring"),
    ("split|join", ". as $s | all((\"a\", \",\", \" \", \"é\", \"\", \"'\", \"aa\", \"\\n\") as $x | ($s | split($x) | join($x)) == $s; .)"),
    ("ascii case keeps non-ASCII", "(ascii_downcase | explode) == (explode | map(if . >= 65 and . <= 90 then . + 32 else . end)) and (ascii_upcase | explode) == (explode | map(if . >= 97 and . <= 122 then . - 32 else . end))"),
    ("length = characters", "length == (explode | length) and (tobytes | length) == utf8bytelength and ([.[range(length):][:1]] | add // \"\") == ."),
    ("slices at character boundaries", ". as $s | all(range(0; length + 1) as $i | range($i; length + 1) as $j | $s[$i:$j]; (explode | implode) == . and length == ([., 0] | .[0] | length)) and all(range(0; length + 1); . as $i | ($s[:$i] + $s[$i:]) == $s and ($s[:$i] | length) == $i)"),
    ("indices count characters", ". as $s | all((\"a\", \"é\", \"😀\", \",\", \"'\") as $x | ($s | indices($x)) == [range($s | length) | select(. as $i | $s[$i:][:1] == $x)]; .)"),
    ("@sh shape", "if (tobytes | . as $b | any(range(length); $b[.] == 0)) then true else (@sh | startswith(\"'\") and endswith(\"'\")) and ([., .] | @sh) == (@sh + \" \" + @sh) end"),
    ("format interpolation", "(@base64 \"\\(.)\") == @base64 and (@uri \"x=\\(.)\") == (\"x=\" + @uri) and (@html \"<\\(.)>\") == (\"<\" + @html + \">\") and (@json \"\\(.)\") == @json and (@text \"\\(.)\") == tostring and (@sh \"echo \\(.)\") == (\"echo \" + @sh)"),
    ("ltrimstr/rtrimstr/startswith", ". as $s | all((\"a\", \"é\", \"'\", \" \") as $x | (($x + $s) | ltrimstr($x)) == $s and (($s + $x) | rtrimstr($x)) == $s and (($x + $s) | startswith($x)) and (($s + $x) | endswith($x)); .)"),
    ("test/match literal", ". as $s | all((\"a\", \"é\", \"😀\") as $x | ($s | [match($x; \"g\") | .offset]) == ($s | indices($x)); .)"),
];

/// byte-string laws
const BYTE_LAWS: &[(&str, &str)] = &[
    ("tostring|tobytes", "(tostring | tobytes) == . and (tobytes) == ."),
    ("@base64 on bytes", "(@base64 | @base64d | tobytes) == . and @base64 == (tostring | @base64)"),
    ("@uri on bytes", "(@uri | @urid | tobytes) == . and @uri == (tostring | @uri)"),
    ("byte positions", ". as $b | length == ([range(length) | $b[.]] | length) and all(range(length); . as $i | $b[$i] >= 0 and $b[$i] < 256 and ($b[$i:$i+1] | length) == 1) and all(range(0; length + 1); . as $i | ($b[:$i] + $b[$i:]) == $b)"),
    ("bytes vs text equality", ". == tostring and (tostring | tobytes) == ."),
];

fn regexes() -> Vec<String> {
    // the last four visit capture groups in an order different from their positions in the subject
    let atoms = ["a", ".", "é", "a*", "(a)", "(?<n>a)", "a|b", "^", "$", "", "b+", "[aé]", "\\\\n", "(a)|(b)", "a?", "(?:(a)|(b))*", "(?:(é)|(b)|(a))+", "((a)|(b))*", "(?:(?<x>b)|(?<y>a))+"];
    let mut v: Vec<String> = atoms.iter().map(|s| s.to_string()).collect();
    for x in atoms {
        for y in atoms {
            if !x.is_empty() && !y.is_empty() {
                v.push(format!("{x}{y}"));
            }
        }
    }
    v.sort();
    v.dedup();
    v
}

/// laws over (subject, regex $re, flags $fl)
const REGEX_LAW: &str = r#"
def ok(f): try f catch null;
. as $s | ok([match($re; $fl)]) as $ms |
if $ms == null then true else
  # every match and capture is located where it says, in characters
  all($ms[]; . as $m | $s[$m.offset:$m.offset + $m.length] == $m.string and
      all($m.captures[]; .string == null or ($s[.offset:.offset + .length] == .string)))
  and
  # test agrees with match
  (($s | test($re; $fl)) == (($ms | length) > 0))
  and
  # the unmatched parts interleaved with the matches reassemble the subject
  (if ($fl | contains("g")) and all($ms[]; .length > 0) then
     ([$s | splits($re; $fl)] as $p | ($p | length) == ($ms | length) + 1 and
       (reduce range($p | length) as $i (""; . + $p[$i] + ($ms[$i].string // ""))) == $s)
   else true end)
  and
  # scan yields the matched strings (no captures) in order
  (if ($fl | contains("g")) and all($ms[]; (.captures | length) == 0) then [$s | scan($re; $fl)] == [$ms[].string] else true end)
  and
  # offsets are increasing and inside the subject
  all($ms[]; .offset >= 0 and .offset + .length <= ($s | length))
end
"#;

pub fn main(tier: Tier) -> ! {
    jq::quiet_panics();
    let run = Run::new("C13", "model_checking", tier);
    let maxlen = if run.quick() { 2 } else { 3 };
    let strs = strings(SYMS, maxlen);
    let text_laws: Vec<(&str, &str, jq::F)> = TEXT_LAWS.iter().map(|(n, l)| (*n, *l, jq::compile_full(l, &[]).unwrap_or_else(|e| panic!("{n}: {e}")))).collect();
    let byte_laws: Vec<(&str, &str, jq::F)> = BYTE_LAWS.iter().map(|(n, l)| (*n, *l, jq::compile_full(l, &[]).unwrap_or_else(|e| panic!("{n}: {e}")))).collect();
    let c = strs
        .par_chunks(64)
        .map(|ch| {
            let mut c = Counts::default();
            for s in ch {
                for (bytes, laws) in [(false, &text_laws), (true, &byte_laws)] {
                    let v = RVal::Str(s.clone(), bytes);
                    for (n, l, f) in laws.iter() {
                        let key = format!("{n} @ {v}");
                        c.case(h64(&key), !s.is_empty(), h64(&(n, s.len())));
                        c.transitions += 1;
                        if let Err(why) = jq::law_holds(f, jq::to_val(&v), vec![]) {
                            run.violation(&key, json!({"law": l, "input": v.to_string(), "why": why}));
                        }
                    }
                }
            }
            c
        })
        .reduce(Counts::default, Counts::merge);
    run.family("round trips", json!({"strings": strs.len(), "text_laws": TEXT_LAWS.len(), "byte_laws": BYTE_LAWS.len()}));
    run.add(c);
    run.bound_done(format!("all strings of length <= {maxlen} over {} symbols, as text and as byte strings, x {} laws", SYMS.len(), TEXT_LAWS.len() + BYTE_LAWS.len()));

    // regex positions
    // incl. a stray continuation byte and an invalid byte (each counts as one character everywhere)
    let subj_alpha: &[&[u8]] = &[b"a", b"b", "é".as_bytes(), "😀".as_bytes(), b"\n", b"\x80", b"\xff"];
    let subjects = strings(subj_alpha, if run.quick() { 3 } else { 4 });
    let res = regexes();
    let flags: Vec<String> = {
        let fl = ['g', 'n', 'i', 'x', 's', 'l'];
        let mut v = vec![];
        for m in 0..(1u32 << fl.len()) {
            if run.quick() && m.count_ones() > 2 {
                continue;
            }
            v.push(fl.iter().enumerate().filter(|(i, _)| m >> i & 1 == 1).map(|(_, c)| *c).collect::<String>());
        }
        v
    };
    let f = jq::compile_full(REGEX_LAW, &["re", "fl"]).expect("regex law");
    let c = res
        .par_iter()
        .map(|re| {
            let mut c = Counts::default();
            for fl in &flags {
                for s in &subjects {
                    let sv = RVal::Str(s.clone(), false);
                    let key = format!("regex {re:?} flags {fl:?} @ {sv}");
                    c.case(h64(&key), !s.is_empty(), h64(&(re, fl.len(), s.len())));
                    c.transitions += 1;
                    let vars: Vec<Val> = vec![jq::to_val(&rv::s(re)), jq::to_val(&rv::s(fl))];
                    if let Err(why) = crate::ev::watched(|| key.clone(), false, || jq::law_holds(&f, jq::to_val(&sv), vars)) {
                        run.violation(&key, json!({"regex": re, "flags": fl, "subject": sv.to_string(), "why": why}));
                    }
                }
            }
            c
        })
        .reduce(Counts::default, Counts::merge);
    run.family("regex positions", json!({"regexes": res.len(), "flag_sets": flags.len(), "subjects": subjects.len(), "cases": c.evaluations}));
    run.add(c);
    run.bound_done(format!("{} regexes (atoms and pairs) x {} flag sets x {} subjects", res.len(), flags.len(), subjects.len()));

    // independent consumers (process level)
    let c = ext::run_python(&run, "c13_consumers.py", &[]);
    run.add(c);
    run.sample(json!({"text_laws": TEXT_LAWS.iter().map(|l| l.0).collect::<Vec<_>>(), "regex_law": "match offsets/lengths in characters, captures located, test == (matches > 0), splits + matches reassemble the subject, scan == matched strings"}));

    run.finish(
        "all strings of length <= 2 (thorough 3) over 46 symbols (shell/CSV/HTML/URL metacharacters, 1-4 byte characters, a lone invalid byte, NUL, and spellings the decoders interpret: entities, percent escapes, base64 padding, JSON escapes, with their tails), as text and byte strings, through 20 in-language round-trip and position laws; regexes built from 15 atoms and their pairs x subsets of the flags g n i x s l x all subjects of length <= 3/4 over {a, b, e-acute, emoji, newline}: match/capture positions, test, splits reassembly, scan; and, at process level, the escaping formatters alone and inside format strings are handed to independent consumers (dash for @sh, Python csv/json/html/urllib/base64 and a TSV reader) which must recover exactly the original data; decoders on all inputs of length <= 3/4 over 16 symbols must never decode a part of malformed input. non-trivial = non-empty string",
        &["independent consumers: /bin/sh (dash) and the Python standard library", "@urid passes malformed percent sequences through unchanged (like urllib); the demand is that nothing is truncated", "NUL is excluded for @sh (no shell argument can hold it)"],
    )
}
