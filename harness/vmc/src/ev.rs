//! Evidence, known findings, violation reporting (shared by all checks).
use serde_json::{json, Value};
use std::collections::{BTreeMap, HashSet};
use std::hash::{Hash, Hasher};
use std::sync::Mutex;
use std::time::Instant;

pub fn verif_dir() -> std::path::PathBuf {
    std::env::var("VERIF_DIR").map(Into::into).unwrap_or_else(|_| "/verif".into())
}

pub fn h64<T: Hash + ?Sized>(t: &T) -> u64 {
    // deterministic (SipHash with fixed keys)
    #[allow(deprecated)]
    let mut h = std::hash::SipHasher::new_with_keys(0x7665_7269, 0x6d63);
    t.hash(&mut h);
    h.finish()
}

#[derive(Clone, Copy, PartialEq, Eq, Debug)]
pub enum Tier {
    Quick,
    Thorough,
}

/// Thread-local accumulator merged into [`Run`].
#[derive(Default)]
pub struct Counts {
    pub evaluations: u64,
    pub transitions: u64,
    pub states: HashSet<u64>,
    pub nontrivial: HashSet<u64>,
    pub outcomes: HashSet<u64>,
}

impl Counts {
    pub fn case(&mut self, key: u64, nontrivial: bool, outcome: u64) {
        self.evaluations += 1;
        if nontrivial {
            self.nontrivial.insert(key);
        }
        self.outcomes.insert(outcome);
    }
    pub fn merge(mut self, o: Counts) -> Counts {
        self.evaluations += o.evaluations;
        self.transitions += o.transitions;
        self.states.extend(o.states);
        self.nontrivial.extend(o.nontrivial);
        self.outcomes.extend(o.outcomes);
        self
    }
}

pub struct Viol {
    pub key: String,
    pub detail: Value,
}

pub struct Run {
    pub prop: String,
    pub tier: Tier,
    pub seed: u64,
    pub level: &'static str,
    start: Instant,
    counts: Mutex<Counts>,
    samples: Mutex<Vec<Value>>,
    viols: Mutex<BTreeMap<String, Value>>,
    known_hits: Mutex<BTreeMap<String, String>>,
    known: Vec<(String, String)>, // (key, what) with status known for this property
    pub extra: Mutex<serde_json::Map<String, Value>>,
    pub families: Mutex<BTreeMap<String, Value>>,
    pub bounds_completed: Mutex<Vec<String>>,
    pub capped: Mutex<Vec<String>>,
    pub deadline_s: f64,
}

impl Run {
    pub fn new(prop: &str, level: &'static str, tier: Tier) -> Run {
        let seed = std::env::var("VERIF_SEED").ok().and_then(|s| s.parse().ok()).unwrap_or(0);
        // replays of an earlier run of this property are stale
        let _ = std::fs::remove_dir_all(verif_dir().join("replays").join(prop));
        // kept in place for the overflow handler, which must not allocate (removed again by `finish` when empty)
        let _ = std::fs::create_dir_all(verif_dir().join("replays").join(prop));
        let kf = verif_dir().join("known_findings.json");
        let mut known = Vec::new();
        if let Ok(s) = std::fs::read_to_string(&kf) {
            let v: Value = serde_json::from_str(&s).expect("known_findings.json must parse");
            for e in v["findings"].as_array().cloned().unwrap_or_default() {
                if e["property"] == prop && e["status"] == "known" {
                    known.push((e["key"].as_str().unwrap().to_string(), e["what"].as_str().unwrap_or("").to_string()));
                }
            }
        }
        let deadline_s = std::env::var("VERIF_BUDGET_S").ok().and_then(|s| s.parse().ok()).unwrap_or(match tier {
            Tier::Quick => 40.0,
            Tier::Thorough => 1200.0,
        });
        Run {
            prop: prop.into(),
            tier,
            seed,
            level,
            start: Instant::now(),
            counts: Default::default(),
            samples: Default::default(),
            viols: Default::default(),
            known_hits: Default::default(),
            known,
            extra: Default::default(),
            families: Default::default(),
            bounds_completed: Default::default(),
            capped: Default::default(),
            deadline_s,
        }
    }
    pub fn quick(&self) -> bool {
        self.tier == Tier::Quick
    }
    pub fn elapsed(&self) -> f64 {
        self.start.elapsed().as_secs_f64()
    }
    /// true while the wall budget is not exhausted
    pub fn time_left(&self) -> bool {
        self.elapsed() < self.deadline_s
    }
    pub fn add(&self, c: Counts) {
        let mut g = self.counts.lock().unwrap();
        let cur = std::mem::take(&mut *g);
        *g = cur.merge(c);
    }
    pub fn sample(&self, v: Value) {
        let mut s = self.samples.lock().unwrap();
        if s.len() < 40 {
            s.push(v);
        }
    }
    pub fn n_samples(&self) -> usize {
        self.samples.lock().unwrap().len()
    }
    /// Record the result of one enumerated family (name -> counts), for the evidence file.
    pub fn family(&self, name: &str, v: Value) {
        eprintln!("[{}] family {name}: {v}", self.prop);
        self.families.lock().unwrap().insert(name.into(), v);
    }
    pub fn bound_done(&self, b: impl Into<String>) {
        self.bounds_completed.lock().unwrap().push(b.into());
    }
    pub fn bound_capped(&self, b: impl Into<String>) {
        self.capped.lock().unwrap().push(b.into());
    }
    /// Report a violation. `key` identifies the failing case exactly (program + input, history ...).
    pub fn violation(&self, key: &str, detail: Value) {
        if let Some((_, what)) = self.known.iter().find(|(k, _)| k == key) {
            self.known_hits.lock().unwrap().insert(key.into(), what.clone());
            return;
        }
        let mut v = self.viols.lock().unwrap();
        if v.len() < 200 {
            v.entry(key.into()).or_insert(detail);
        }
    }
    pub fn n_violations(&self) -> usize {
        self.viols.lock().unwrap().len()
    }
    pub fn finish(self, rule: &str, assumptions: &[&str]) -> ! {
        let c = self.counts.into_inner().unwrap();
        let viols = self.viols.into_inner().unwrap();
        let hits = self.known_hits.into_inner().unwrap();
        let wall = self.start.elapsed().as_secs_f64();
        let vd = verif_dir();
        let rdir = vd.join("replays").join(&self.prop);
        let mut lines = Vec::new();
        for (k, what) in &hits {
            lines.push(format!("KNOWN-FINDING: property={} {} [{}]", self.prop, what, k));
        }
        if !viols.is_empty() {
            std::fs::create_dir_all(&rdir).ok();
        } else {
            let _ = std::fs::remove_dir(&rdir); // only succeeds when empty
        }
        for (i, (k, d)) in viols.iter().enumerate() {
            let p = rdir.join(format!("viol_{:03}_{:016x}.json", i, h64(k)));
            let body = json!({"property": self.prop, "key": k, "detail": d});
            std::fs::write(&p, serde_json::to_string_pretty(&body).unwrap()).ok();
            if i < 25 {
                lines.push(format!("VIOLATION property={} replay={}", self.prop, p.display()));
                eprintln!("  violation key: {k}\n  detail: {d}");
            }
        }
        let capped = self.capped.into_inner().unwrap();
        let mut cov = serde_json::Map::new();
        let states = if c.states.is_empty() { c.nontrivial.len().max(1) as u64 } else { c.states.len() as u64 };
        cov.insert("evaluations".into(), json!(c.evaluations));
        cov.insert("distinct_nontrivial".into(), json!(c.nontrivial.len()));
        cov.insert("rule".into(), json!(rule));
        cov.insert("samples".into(), json!(self.samples.into_inner().unwrap()));
        cov.insert("states".into(), json!(states));
        cov.insert("transitions".into(), json!(c.transitions.max(c.evaluations)));
        cov.insert("traces_validated_against_impl".into(), json!(c.evaluations));
        cov.insert("distinct_outcomes".into(), json!(c.outcomes.len()));
        cov.insert("families".into(), json!(self.families.into_inner().unwrap()));
        cov.insert("bounds_completed".into(), json!(self.bounds_completed.into_inner().unwrap()));
        cov.insert("capped".into(), json!(capped));
        cov.insert("exhaustive".into(), json!(capped.is_empty()));
        cov.insert("known_findings_hit".into(), json!(hits.keys().collect::<Vec<_>>()));
        for (k, v) in self.extra.into_inner().unwrap() {
            cov.insert(k, v);
        }
        let ev = json!({
            "property_id": self.prop,
            "tier": if self.tier == Tier::Quick {"quick"} else {"thorough"},
            "seed": self.seed,
            "level": self.level,
            "coverage": cov,
            "assumptions": assumptions,
            "wall_s": wall,
            "violations": viols.len(),
        });
        let edir = vd.join("evidence");
        std::fs::create_dir_all(&edir).ok();
        std::fs::write(edir.join(format!("{}.json", self.prop)), serde_json::to_string_pretty(&ev).unwrap()).unwrap();
        for l in &lines {
            println!("{l}");
        }
        eprintln!(
            "[{}] evaluations={} distinct_nontrivial={} states={} outcomes={} violations={} known={} wall={:.1}s",
            self.prop,
            c.evaluations,
            c.nontrivial.len(),
            states,
            c.outcomes.len(),
            viols.len(),
            hits.len(),
            wall
        );
        if !viols.is_empty() {
            std::process::exit(1);
        }
        if c.evaluations == 0 || c.outcomes.len() < 2 {
            eprintln!("[{}] machinery error: vacuous sweep (evaluations={}, outcomes={})", self.prop, c.evaluations, c.outcomes.len());
            std::process::exit(2);
        }
        std::process::exit(0)
    }
}

// ------------------------------------------------------------------ watchdog

use std::sync::OnceLock;
static WATCH: OnceLock<Mutex<Vec<Option<(String, Instant, bool)>>>> = OnceLock::new();
thread_local! { static SLOT: std::cell::Cell<usize> = std::cell::Cell::new(usize::MAX); }

fn watch() -> &'static Mutex<Vec<Option<(String, Instant, bool)>>> {
    WATCH.get_or_init(|| {
        let prop = std::env::args().nth(1).unwrap_or_default().to_uppercase();
        std::thread::spawn(move || loop {
            std::thread::sleep(std::time::Duration::from_secs(2));
            let g = WATCH.get().unwrap().lock().unwrap();
            for e in g.iter().flatten() {
                let limit = std::env::var("VERIF_CASE_TIMEOUT_S").ok().and_then(|s| s.parse().ok()).unwrap_or(60);
                if e.1.elapsed().as_secs() > limit {
                    if e.2 {
                        // the model terminated on this case, the implementation did not: divergence
                        let vd = verif_dir().join("replays").join(&prop);
                        std::fs::create_dir_all(&vd).ok();
                        let p = vd.join(format!("divergence_{:016x}.json", h64(&e.0)));
                        std::fs::write(&p, serde_json::to_string_pretty(&json!({"property": prop, "key": e.0, "detail": {"what": "the implementation did not terminate within the case time limit although the reference model did"}})).unwrap()).ok();
                        eprintln!("divergence on case: {}", e.0);
                        println!("VIOLATION property={} replay={}", prop, p.display());
                        std::process::exit(1);
                    } else {
                        eprintln!("machinery error: case did not terminate within {limit} s: {}", e.0);
                        std::process::exit(2);
                    }
                }
            }
        });
        Mutex::new(Vec::new())
    })
}

// ------------------------------------------------------------------ stack overflow of the implementation

/// Give the calling thread a roomy alternate signal stack (the handler below formats a report).
pub fn thread_altstack() {
    const SZ: usize = 1 << 20;
    unsafe {
        let mem = libc::mmap(std::ptr::null_mut(), SZ, libc::PROT_READ | libc::PROT_WRITE, libc::MAP_PRIVATE | libc::MAP_ANONYMOUS, -1, 0);
        if mem != libc::MAP_FAILED {
            let ss = libc::stack_t { ss_sp: mem, ss_flags: 0, ss_size: SZ };
            libc::sigaltstack(&ss, std::ptr::null_mut());
        }
    }
}

/// jaq has no unsafe code, so a SIGSEGV in a worker thread is the guard page of its (1 GiB) stack.
/// When that happens while the implementation runs a registered case, the case is reported as a
/// violation (the case terminates with a value in the model / on the unchanged tree; no finite case of
/// these checks needs a gigabyte of stack); otherwise it is a machinery error.
pub fn install_crash_handler() {
    thread_altstack();
    let prop = std::env::args().nth(1).unwrap_or_default().to_uppercase();
    let dir = verif_dir().join("replays").join(&prop);
    let _ = CRASH_PROP.set(prop.into_bytes());
    let _ = CRASH_DIR.set(dir.to_string_lossy().as_bytes().to_vec());
    unsafe {
        let mut sa: libc::sigaction = std::mem::zeroed();
        sa.sa_sigaction = on_crash as usize;
        sa.sa_flags = libc::SA_SIGINFO | libc::SA_ONSTACK;
        libc::sigaction(libc::SIGSEGV, &sa, std::ptr::null_mut());
        libc::sigaction(libc::SIGBUS, &sa, std::ptr::null_mut());
    }
}

static CRASH_DIR: OnceLock<Vec<u8>> = OnceLock::new();
static CRASH_PROP: OnceLock<Vec<u8>> = OnceLock::new();

/// fixed-size byte sink (the handler must not allocate: the dying thread may hold the allocator's lock)
struct Buf<const N: usize> {
    b: [u8; N],
    n: usize,
}

impl<const N: usize> Buf<N> {
    fn push(&mut self, bytes: &[u8]) {
        let k = bytes.len().min(N - self.n);
        self.b[self.n..self.n + k].copy_from_slice(&bytes[..k]);
        self.n += k;
    }
    fn json_escaped(&mut self, bytes: &[u8]) {
        const HEX: &[u8; 16] = b"0123456789abcdef";
        for &c in bytes {
            match c {
                b'"' => self.push(b"\\\""),
                b'\\' => self.push(b"\\\\"),
                0..=0x1f => self.push(&[b'\\', b'u', b'0', b'0', HEX[(c >> 4) as usize], HEX[(c & 15) as usize]]),
                _ => self.push(&[c]),
            }
        }
    }
    fn bytes(&self) -> &[u8] {
        &self.b[..self.n]
    }
}

extern "C" fn on_crash(_sig: i32, _info: *mut libc::siginfo_t, _ctx: *mut libc::c_void) {
    unsafe {
        libc::alarm(20); // should anything below block after all, die as a machinery error (exit status 142)
    }
    // no allocation below this line
    let slot = SLOT.try_with(|s| s.get()).unwrap_or(usize::MAX);
    let mut key = Buf::<8192> { b: [0; 8192], n: 0 };
    if let Some(w) = WATCH.get() {
        if let Ok(g) = w.lock() {
            if let Some(Some(e)) = g.get(slot) {
                let kb = e.0.as_bytes();
                let mut k = kb.len().min(8000);
                while k > 0 && k < kb.len() && (kb[k] & 0xC0) == 0x80 {
                    k -= 1; // do not cut a character
                }
                key.push(&kb[..k]);
            }
        }
    }
    let out = |fd: i32, b: &[u8]| unsafe {
        libc::write(fd, b.as_ptr() as *const libc::c_void, b.len());
    };
    if key.n == 0 {
        out(2, b"machinery error: SIGSEGV/stack overflow outside a registered case\n");
        unsafe { libc::_exit(2) }
    }
    let prop: &[u8] = CRASH_PROP.get().map(|v| &v[..]).unwrap_or(b"?");
    // file name from a hash of the key
    #[allow(deprecated)]
    let mut h = std::hash::SipHasher::new_with_keys(0x7665_7269, 0x6d63);
    h.write(key.bytes());
    let hv = h.finish();
    let mut path = Buf::<4096> { b: [0; 4096], n: 0 };
    path.push(CRASH_DIR.get().map(|v| &v[..]).unwrap_or(b"/tmp"));
    path.push(b"/overflow_");
    const HEX: &[u8; 16] = b"0123456789abcdef";
    for i in (0..16).rev() {
        path.push(&[HEX[((hv >> (4 * i)) & 15) as usize]]);
    }
    path.push(b".json");
    let plen = path.n;
    path.push(&[0]);
    let mut body = Buf::<32768> { b: [0; 32768], n: 0 };
    body.push(b"{\n  \"property\": \"");
    body.push(prop);
    body.push(b"\",\n  \"key\": \"");
    body.json_escaped(key.bytes());
    body.push(b"\",\n  \"detail\": {\"what\": \"the implementation overflowed the native stack of its thread on this case (1 GiB in the rayon workers of the exhaustive checks, 1 MiB in the C04 workers)\"}\n}\n");
    unsafe {
        let fd = libc::open(path.b.as_ptr() as *const libc::c_char, libc::O_WRONLY | libc::O_CREAT | libc::O_TRUNC, 0o644);
        if fd >= 0 {
            libc::write(fd, body.b.as_ptr() as *const libc::c_void, body.n);
            libc::close(fd);
        }
    }
    out(2, b"stack overflow on case: ");
    out(2, key.bytes());
    out(2, b"\n");
    out(1, b"VIOLATION property=");
    out(1, prop);
    out(1, b" replay=");
    out(1, &path.b[..plen]);
    out(1, b"\n");
    unsafe { libc::_exit(1) }
}

/// Run `f` under the watchdog. `verdict`: a time-out is a divergence violation (the model terminated),
/// otherwise it is a machinery error.
pub fn watched<R>(key: impl FnOnce() -> String, verdict: bool, f: impl FnOnce() -> R) -> R {
    let w = watch();
    let slot = SLOT.with(|s| {
        if s.get() == usize::MAX {
            let mut g = w.lock().unwrap();
            g.push(None);
            s.set(g.len() - 1);
        }
        s.get()
    });
    w.lock().unwrap()[slot] = Some((key(), Instant::now(), verdict));
    let r = f();
    w.lock().unwrap()[slot] = None;
    r
}
