//! Comparison of a model trace with an implementation trace.
use crate::jq::Ev;
use crate::reval::{Outcome, OPAQUE};
use crate::rval::{self as rv, RVal};

#[derive(Debug, PartialEq, Clone)]
pub enum Verdict {
    Same,
    /// model undecided (unsupported construct, fuel): not compared
    Undecided,
    /// differs, but the model handed an unspecified error message to the program
    Partial,
    Differ(String),
}

fn contains_opaque(v: &RVal) -> bool {
    match v {
        RVal::Str(b, _) => b.windows(OPAQUE.len()).any(|w| w == OPAQUE.as_bytes()),
        RVal::Arr(a) => a.iter().any(contains_opaque),
        RVal::Obj(o) => o.iter().any(|(k, v)| contains_opaque(k) || contains_opaque(v)),
        _ => false,
    }
}

/// same value, objects compared as unordered maps (after a deleting update)
pub fn same_unordered(a: &RVal, b: &RVal) -> bool {
    match (a, b) {
        (RVal::Arr(x), RVal::Arr(y)) => x.len() == y.len() && x.iter().zip(y).all(|(p, q)| same_unordered(p, q)),
        (RVal::Obj(x), RVal::Obj(y)) => x.len() == y.len() && x.iter().all(|(k, v)| y.iter().any(|(k2, v2)| same_unordered(k, k2) && same_unordered(v, v2))),
        _ => rv::same(a, b),
    }
}

fn ev_same(m: &Ev, i: &Ev, unordered: bool) -> bool {
    let vs = |a: &RVal, b: &RVal| if unordered { same_unordered(a, b) } else { rv::same(a, b) };
    match (m, i) {
        (Ev::Tick(a), Ev::Tick(b)) => a == b,
        (Ev::Pull(a), Ev::Pull(b)) => a == b,
        (Ev::Bomb, Ev::Bomb) | (Ev::End, Ev::End) | (Ev::Cut, Ev::Cut) => true,
        (Ev::Halt(a), Ev::Halt(b)) => a == b,
        (Ev::Out(a), Ev::Out(b)) => vs(a, b),
        // a built-in error of the model matches any error of the implementation
        (Ev::Err(a), Ev::Err(b)) => contains_opaque(a) || vs(a, b),
        _ => false,
    }
}

pub fn compare(model: &Outcome, imp: &[Ev]) -> Verdict {
    if let Some(Ev::Panic(p)) = imp.last() {
        return Verdict::Differ(format!("implementation panicked: {p}"));
    }
    if model.undecided.is_some() {
        return Verdict::Undecided;
    }
    let m = &model.trace;
    let n = m.len().max(imp.len());
    for j in 0..n {
        let ok = match (m.get(j), imp.get(j)) {
            (Some(a), Some(b)) => ev_same(a, b, model.deleted),
            _ => false,
        };
        if !ok {
            if model.opaque {
                return Verdict::Partial;
            }
            return Verdict::Differ(format!("event {j}: model {:?} vs impl {:?}", m.get(j).map(crate::jq::ev_json), imp.get(j).map(crate::jq::ev_json)));
        }
    }
    Verdict::Same
}
