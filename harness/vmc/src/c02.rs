//! C02 — `path(f)`, `getpath` and updates agree on the positions a filter denotes.
use crate::c01::{check_program, Stats};
use crate::ev::{h64, Counts, Run, Tier};
use crate::gen;
use crate::jq;
use crate::rterm::{self as rt, *};
use crate::rval::{self as rv, RVal};
use rayon::prelude::*;
use serde_json::json;

fn p(code: &str) -> T {
    rt::parse_with_jaq(code).unwrap_or_else(|| panic!("atom {code}"))
}

fn atoms() -> Vec<T> {
    let mut v: Vec<T> = vec![];
    for a in [".", "..", ".[0]", ".[-1]", ".a", ".b", ".[]", ".[1:]", ".[:1]", ".[0:1]"] {
        v.push(p(a));
    }
    for a in [".[0]?", ".[-1]?", ".a?", ".[]?", ".[1:]?", ".[0:1]?"] {
        v.push(p(a));
    }
    for a in [
        ".[(0,1)]",
        ".[(\"a\",\"b\")]",
        "empty",
        "error(\"p\")",
        "select(. != null)",
        "getpath([\"a\"])",
        "recurse",
        "(0,1) as $i | .[$i]?",
        "reduce (0,\"a\") as $i (.; .[$i]?)",
        "foreach (0,\"a\") as $i (.; .[$i]?)",
        ".a[0]?",
        ".[]?[]?",
        "if . then .[0]? else . end",
        "recurse(.[]?; . != 1)",
        // positions computed from the input, under heads other than `.`
        ".[.a]?",
        "(.b)[.a]?",
        "(.a, .b)[.a]?",
        ".b[.a]?",
        "(.b)[.a:]?",
        ".[.[0]?]?",
        // conditions with no or several outputs (an update folds over them)
        "select((true, true))",
        "select(.[]?)",
        "if empty then .a else .b end",
        "if (true, false) then .a? else .[0]? end",
    ] {
        v.push(p(a));
    }
    v
}

fn unaries() -> Vec<Box<dyn Fn(T) -> T + Sync + Send>> {
    vec![
        Box::new(|x| call("first", vec![x])),
        Box::new(|x| call("last", vec![x])),
        Box::new(|x| call("limit", vec![num(1), x])),
        Box::new(|x| call("skip", vec![num(1), x])),
        Box::new(|x| T::Def(vec![DefD { name: "f".into(), args: vec![], body: x }], b(call0("f")))),
        Box::new(|x| T::Def(vec![DefD { name: "f".into(), args: vec!["g".into()], body: call0("g") }], b(call("f", vec![x])))),
        Box::new(|x| pipe(tick(1), x)),
        Box::new(|x| T::Def(vec![DefD { name: "f".into(), args: vec!["$k".into()], body: pipe(x, T::Path(b(T::Id), vec![(Part::Index(var("$k")), true)])) }], b(call("f", vec![comma(num(0), strlit("a"))])))),
    ]
}

fn binaries() -> Vec<Box<dyn Fn(T, T) -> T + Sync + Send>> {
    vec![
        Box::new(pipe),
        Box::new(comma),
        Box::new(|x, y| bin(x, Op::Alt, y)),
        Box::new(|x, y| T::If(vec![(idx(T::Id, num(0)), x)], Some(b(y)))),
        Box::new(|x, y| T::If(vec![(comma(call0("true"), call0("false")), x)], Some(b(y)))),
    ]
}

pub fn inputs(quick: bool) -> Vec<RVal> {
    let atoms = vec![RVal::Null, rv::int(1), rv::s("a")];
    let keys = vec![rv::s("a"), rv::s("b")];
    let d1 = gen::trees(&atoms, &keys, 1, 2);
    // depth 2 over a reduced set of inner values
    let inner: Vec<RVal> = {
        let step = if quick { 7 } else { 4 };
        let mut v = atoms.clone();
        v.extend(d1.iter().filter(|x| matches!(x, RVal::Arr(_) | RVal::Obj(_))).step_by(step).cloned());
        v
    };
    let mut out = gen::trees(&inner, &keys, 1, 2);
    out.push(RVal::Bool(false));
    out.push(RVal::Float(1.5));
    out.push(rv::bs(b"ab"));
    // text with multi-byte characters (slice paths count characters) and containers that hold positions for others
    out.push(rv::s("Möwe"));
    out.push(rv::s("a😀b"));
    out.push(crate::eval_const("{\"a\":\"b\",\"b\":{\"a\":7,\"b\":8}}"));
    out.push(crate::eval_const("{\"a\":1,\"b\":[[5],[6,7]]}"));
    out.push(crate::eval_const("[1,[2,3],[4]]"));
    // distinct
    let mut seen = std::collections::HashSet::new();
    out.retain(|v| seen.insert(v.to_string()));
    out
}

/// rewrite every `f // g` into `if first(f // false) then f else g end` (advanced.dj#path-based)
fn alt_as_if(t: &T) -> T {
    match t {
        T::Bin(l, Op::Alt, r) => {
            let (l2, r2) = (alt_as_if(l), alt_as_if(r));
            let cond = call("first", vec![bin((**l).clone(), Op::Alt, call0("false"))]);
            T::If(vec![(cond, l2)], Some(b(r2)))
        }
        T::Bin(l, op, r) => bin(alt_as_if(l), op.clone(), alt_as_if(r)),
        T::As(l, p, r) => as_(alt_as_if(l), p.clone(), alt_as_if(r)),
        T::Call(n, a) => T::Call(n.clone(), a.iter().map(alt_as_if).collect()),
        T::Def(ds, f) => T::Def(ds.iter().map(|d| DefD { name: d.name.clone(), args: d.args.clone(), body: alt_as_if(&d.body) }).collect(), b(alt_as_if(f))),
        T::If(its, e) => T::If(its.iter().map(|(c, t)| (c.clone(), alt_as_if(t))).collect(), e.as_ref().map(|e| b(alt_as_if(e)))),
        T::Fold(n, xs, p, args) => T::Fold(n.clone(), xs.clone(), p.clone(), args.iter().map(alt_as_if).collect()),
        t => t.clone(),
    }
}

const UPDATES: &[&str] = &["empty", ".", "[.]", "([.],[[.]])", "error(\"u\")"];

fn programs_for(pe: &T) -> Vec<(&'static str, T)> {
    let mut v: Vec<(&'static str, T)> = vec![("path", call("path", vec![pe.clone()])), ("path_value", call("path_value", vec![pe.clone()]))];
    for u in UPDATES {
        v.push(("update", bin(pe.clone(), Op::Update, p(u))));
    }
    for (name, op) in [("assign", Op::Assign), ("arith-update", Op::UpdateMath('+')), ("alt-update", Op::UpdateAlt)] {
        for rhs in ["(1,2)", "empty", "error(\"r\")"] {
            v.push((name, bin(pe.clone(), op.clone(), p(rhs))));
        }
    }
    v.push(("arith-update", bin(pe.clone(), Op::UpdateMath('-'), p("1"))));
    v.push(("del", call("del", vec![pe.clone()])));
    v
}

/// derived filters (laws evaluated by the implementation on every input)
const LAWS: &[(&str, &str)] = &[
    ("paths", "[paths] == [skip(1; path(..))]"),
    ("keys_unsorted", "if (type == \"array\" or type == \"object\") then keys_unsorted == [path(.[])[]] else true end"),
    ("to_entries", "if (type == \"array\" or type == \"object\") then to_entries == [path(.[]) as [$k] | {key: $k, value: .[$k]}] else true end"),
    ("getpath-paths", "[paths as $p | getpath($p)] == [..] [1:]"),
    ("setpath", "all(paths as $p | (setpath($p; 42) | getpath($p)) == 42; .)"),
    ("setpath-id", "all(paths as $p | setpath($p; getpath($p)) == .; .)"),
    ("delpaths", "all(paths as $p | (delpaths([$p]) == del(getpath($p))); .)"),
    ("del-update", "all(paths as $p | (del(getpath($p)) == (getpath($p) |= empty)); .)"),
    ("pick", "all(paths as $p | (pick(getpath($p)) | getpath($p)) == getpath($p); .)"),
    ("map_values", "if (type == \"array\" or type == \"object\") then map_values([.]) == (.[] |= [.]) else true end"),
    ("walk", "walk(if type == \"number\" then . + 1 else . end) == (.. |= (if type == \"number\" then . + 1 else . end))"),
    ("path_value", "[path_value(..)] == [path(..) as $p | [$p, getpath($p)]]"),
    ("leaf-paths", "[paths(type == \"number\")] == [paths as $p | select(getpath($p) | type == \"number\") | $p]"),
    ("update-is-setpath", "all(paths as $p | (getpath($p) |= [.]) == setpath($p; [getpath($p)]); .)"),
];

pub fn main(tier: Tier) -> ! {
    jq::quiet_panics();
    let run = Run::new("C02", "model_checking", tier);
    let ins: Vec<RVal> = if run.quick() {
        // every 4th tree of the depth-2 enumeration plus all scalars (the quick tier's input alphabet)
        let all = inputs(true);
        let n = all.len();
        all.into_iter().enumerate().filter(|(i, _)| i % 4 == 0 || *i + 8 >= n || *i < 3).map(|(_, v)| v).collect()
    } else {
        inputs(false)
    };
    let mut at = atoms();
    let un = unaries();
    let mut bi = binaries();
    if !run.quick() {
        // the round-8 additions (conditions with no or several outputs) are explored in the quick tier only:
        // the thorough tier with them could not be re-run to completion after the last correction (DESIGN.md 8.3)
        at.truncate(at.len() - 4);
        bi.truncate(bi.len() - 1);
    }
    // depth 1 and 2
    let mut exprs: Vec<T> = at.clone();
    for u in &un {
        for a in &at {
            exprs.push(u(a.clone()));
        }
    }
    for bop in &bi {
        for x in &at {
            for y in &at {
                exprs.push(bop(x.clone(), y.clone()));
            }
        }
    }
    let d2 = exprs.clone();
    run.bound_done(format!("all path expressions of depth <= 2 ({} expressions)", d2.len()));
    if !run.quick() {
        // depth 3: one side of depth 2
        for u in &un {
            for a in &d2[at.len()..] {
                exprs.push(u(a.clone()));
            }
        }
        for bop in &bi[..3] {
            for x in &d2[at.len()..] {
                for y in at.iter().step_by(3) {
                    exprs.push(bop(x.clone(), y.clone()));
                    exprs.push(bop(y.clone(), x.clone()));
                }
            }
        }
        run.bound_done(format!("path expressions of depth 3 with one atomic side ({} expressions in total)", exprs.len()));
    }
    eprintln!("[C02] {} path expressions, {} inputs", exprs.len(), ins.len());

    // obligations 1, 3, 4: model vs implementation
    let st = exprs
        .par_iter()
        .fold(Stats::default, |mut st, pe| {
            if !run.time_left() {
                return st;
            }
            for (fam, prog) in programs_for(pe) {
                if std::env::var("VMC_TRACE").is_ok() {
                    eprintln!("TRACE {}", rt::show(&prog));
                }
                check_program(&run, &mut st, fam, &prog, &ins, &[], 24);
            }
            st
        })
        .reduce(Stats::default, Stats::merge);
    if !run.time_left() {
        run.bound_capped("path expressions: wall budget reached before all expressions were explored");
    }
    run.family("path/update vs model", st.json());
    run.add(st.c);

    // obligation 2: getpath(path(P)) reproduces P (implementation against itself)
    let c = exprs
        .par_iter()
        .map(|pe| {
            let mut c = Counts::default();
            if run.elapsed() > run.deadline_s * 1.5 {
                run.bound_capped("getpath(path(p)): wall budget reached");
                return c;
            }
            let text = rt::show(pe);
            let lhs = match jq::compile(&format!("getpath(path({text}))"), &[]) {
                Ok(f) => f,
                Err(_) => return c,
            };
            // for `f // g` the manual's rule is `if first(f // false) then f else g end`
            let rhs = jq::compile(&rt::show(&alt_as_if(pe)), &[]).unwrap();
            let pf = jq::compile(&format!("[path({text})] | length"), &[]).unwrap();
            for i in &ins {
                // only where path(P) is defined on this input
                let defined = crate::ev::watched(|| format!("getpath-path: {text} @ {i}"), false, || matches!(jq::run_simple(&pf, jq::to_val(i), 2).first(), Some(jq::Ev::Out(_))));
                if !defined {
                    continue;
                }
                let (a, b_) = crate::ev::watched(|| format!("getpath-path: {text} @ {i}"), false, || (jq::run_simple(&lhs, jq::to_val(i), 40), jq::run_simple(&rhs, jq::to_val(i), 40)));
                // ticks are doubled by construction on the left side: compare outputs and terminal event only
                let strip = |t: &Vec<jq::Ev>| jq::trace_json(&t.iter().filter(|e| !matches!(e, jq::Ev::Tick(_))).cloned().collect::<Vec<_>>()).to_string();
                let (sa, sb) = (strip(&a), strip(&b_));
                let key = format!("getpath-path: {text} @ {i}");
                c.case(h64(&key), b_.len() > 1, h64(&sb));
                if sa != sb {
                    run.violation(&key, json!({"law": "getpath(path(p)) reproduces p", "p": text, "input": i.to_string(), "getpath(path(p))": jq::trace_json(&a), "p_outputs": jq::trace_json(&b_)}));
                }
            }
            c
        })
        .reduce(Counts::default, Counts::merge);
    run.family("getpath(path(p)) == p", json!({"cases": c.evaluations}));
    run.add(c);

    // obligation 5: derived filters
    let laws: Vec<(&str, &str, jq::F)> = LAWS.iter().map(|(n, l)| (*n, *l, jq::compile_full(l, &[]).unwrap_or_else(|e| panic!("law {n}: {e}")))).collect();
    let big_inputs = inputs(false);
    let c = big_inputs
        .par_iter()
        .map(|i| {
            let mut c = Counts::default();
            for (n, l, f) in &laws {
                let key = format!("law {n} @ {i}");
                c.case(h64(&key), matches!(i, RVal::Arr(_) | RVal::Obj(_)), h64(&(n, i.type_name())));
                if let Err(why) = crate::ev::watched(|| key.clone(), false, || jq::law_holds(f, jq::to_val(i), vec![])) {
                    run.violation(&key, json!({"law": l, "input": i.to_string(), "why": why}));
                }
            }
            c
        })
        .reduce(Counts::default, Counts::merge);
    run.family("derived-filter laws", json!({"laws": LAWS.len(), "inputs": big_inputs.len()}));
    run.add(c);
    run.sample(json!({"path_expression": rt::show(&exprs[exprs.len() / 2]), "programs": programs_for(&exprs[exprs.len() / 2]).iter().map(|(f, t)| format!("{f}: {}", rt::show(t))).collect::<Vec<_>>()}));
    run.sample(json!({"inputs_example": ins.iter().step_by(ins.len() / 6).map(|x| x.to_string()).collect::<Vec<_>>()}));
    run.sample(json!({"laws": LAWS.iter().map(|(n, l)| format!("{n}: {l}")).collect::<Vec<_>>()}));

    run.finish(
        "path expressions are enumerated exhaustively to depth 2 (thorough: depth 3 with one atomic side) over 30 path atoms, 8 unary wrappers (first/last/limit/skip/definitions/filter arguments/variable arguments/effect marker) and 4 combinators; for each expression path(p), path_value(p), p |= u for five update filters, = / += / -= / //= with multi-valued, empty and failing right-hand sides and del(p) are compared with the reference evaluator's path and update modes on every input tree of depth <= 2; getpath(path(p)) is compared with p wherever path(p) is defined; 14 derived-filter laws run on every input. non-trivial = the model trace has an output or an error",
        &["reference evaluator transcribed from advanced.dj (path-based and pathless tables)", "objects are compared up to key order after a deleting update", "left-hand sides that jaq documents as unsupported (first/last/limit/skip/try/label) must fail in both"],
    )
}
