//! C07 — print-then-parse is the identity on values; JSON texts mean what RFC 8259 says.
use crate::ev::{h64, Counts, Run, Tier};
use crate::gen;
use crate::jq;
use crate::rval::{self as rv, RVal};
use jaq_all::json::Val;
use rayon::prelude::*;
use serde_json::json;
use std::io::Write;
use std::process::{Command, Stdio};

/// structurally significant bytes
const ALPHA: &[u8] = &[b'"', b'\\', b'/', 0x00, 0x08, 0x0C, b'\n', b'\r', b'\t', 0x1F, 0x7F, 0x80, 0xC3, 0xA9, 0xE2, 0x82, 0xAC, 0xF0, 0x9F, 0x98, 0xC0, 0xED, 0xA0, 0xFF, b'a', b'u', b'b', b'x', b'0', b' '];

fn byte_strings(maxlen: usize) -> Vec<Vec<u8>> {
    let mut out: Vec<Vec<u8>> = vec![vec![]];
    let mut frontier: Vec<Vec<u8>> = vec![vec![]];
    for _ in 0..maxlen {
        let mut nf = Vec::with_capacity(frontier.len() * ALPHA.len());
        for s in &frontier {
            for &a in ALPHA {
                let mut s2 = s.clone();
                s2.push(a);
                nf.push(s2);
            }
        }
        out.extend(nf.iter().cloned());
        frontier = nf;
    }
    out
}

/// observation vector of a value: printed form + structural identity
/// A float read back from its own text is a decimal literal with the same printed form and the same
/// IEEE value: the two cannot be told apart by any filter (DESIGN.md §6), so they are observation-equal.
fn obs_same(back: &RVal, orig: &RVal) -> bool {
    use RVal::*;
    match (back, orig) {
        (Dec(d), Float(x)) => d.parse::<f64>().map_or(false, |y| y.to_bits() == x.to_bits() || (y.is_nan() && x.is_nan())),
        (Arr(x), Arr(y)) => x.len() == y.len() && x.iter().zip(y).all(|(p, q)| obs_same(p, q)),
        (Obj(x), Obj(y)) => x.len() == y.len() && x.iter().zip(y).all(|(p, q)| obs_same(&p.0, &q.0) && obs_same(&p.1, &q.1)),
        _ => rv::same(back, orig),
    }
}

fn has_finite_float(v: &RVal) -> bool {
    match v {
        RVal::Float(f) => f.is_finite(),
        RVal::Arr(a) => a.iter().any(has_finite_float),
        RVal::Obj(o) => o.iter().any(|(k, v)| has_finite_float(k) || has_finite_float(v)),
        _ => false,
    }
}

fn roundtrip_ok(run: &Run, c: &mut Counts, f: &jq::F, fam: &str, v: &RVal) {
    let key = format!("{fam}: {}", rv::json_string(v));
    let out = jq::run_vals(f, jq::to_val(v), vec![], 2);
    let text = rv::json_string(v);
    c.case(h64(&key), !matches!(v, RVal::Null), h64(&(fam, text.len().min(40), v.type_name())));
    c.transitions += 2;
    let ok = match &out {
        Ok(o) if o.len() == 1 => match &o[0] {
            Ok(Val::Arr(a)) if a.len() == 3 => {
                let printed = jq::to_rval(&a[0]);
                let back = jq::to_rval(&a[1]);
                let printed_again = jq::to_rval(&a[2]);
                // same printed form, same class/bits/bytes/key order
                rv::same(&printed, &printed_again) && obs_same(&back, v) && {
                    // the model printer is a third opinion on the text (byte-exact)
                    // (the digits chosen for finite floats are not specified: there only the round trip counts)
                    match &printed {
                        RVal::Str(b, false) => {
                            let mut m = Vec::new();
                            rv::to_json(v, &mut m);
                            has_finite_float(v) || *b == m
                        }
                        _ => false,
                    }
                }
            }
            _ => false,
        },
        _ => false,
    };
    if !ok {
        let got = match &out {
            Ok(o) => format!("{:?}", o.iter().map(|x| x.as_ref().map(|v| v.to_string()).map_err(|e| jq::ev_json(e).to_string())).collect::<Vec<_>>()),
            Err(p) => format!("panic: {p}"),
        };
        run.violation(&key, json!({"family": fam, "value": text, "program": "[tojson, (tojson|fromjson), (tojson|fromjson|tojson)]", "got": got, "model_print": text}));
    }
}

fn jaq_bin() -> String {
    std::env::var("JAQ_BIN").unwrap_or_else(|_| "/verif/target/jaqbin/debug/jaq".into())
}

fn run_jaq(args: &[&str], stdin: &[u8]) -> (Vec<u8>, i32) {
    let mut ch = Command::new(jaq_bin()).args(args).stdin(Stdio::piped()).stdout(Stdio::piped()).stderr(Stdio::null()).spawn().expect("spawn jaq");
    let mut si = ch.stdin.take().unwrap();
    let data = stdin.to_vec();
    let t = std::thread::spawn(move || {
        let _ = si.write_all(&data);
    });
    let out = ch.wait_with_output().expect("wait");
    let _ = t.join();
    (out.stdout, out.status.code().unwrap_or(-1))
}

fn sort_keys(v: &RVal) -> RVal {
    match v {
        RVal::Arr(a) => RVal::Arr(a.iter().map(sort_keys).collect()),
        RVal::Obj(o) => {
            let mut o: Vec<(RVal, RVal)> = o.iter().map(|(k, v)| (sort_keys(k), sort_keys(v))).collect();
            o.sort_by(|a, b| rv::cmp(&a.0, &b.0));
            RVal::Obj(o)
        }
        v => v.clone(),
    }
}

// ------------------------------------------------------------------ RFC 8259 texts

fn tokens() -> Vec<&'static str> {
    vec![
        "[", "]", "{", "}", ",", ":", "true", "false", "null", "0", "-0", "1", "-1", "10", "1E+2", "1e-2", "0.10", "1.5e3", "123456789012345678901234567890", "-123456789012345678901234567890", "0.1e1", "1E5", "2e0",
        "\"\"", "\"a\"", "\"\\n\"", "\"\\\"\"", "\"\\\\\"", "\"\\/\"", "\"\\b\\f\\r\\t\"", "\"\\u0041\"", "\"\\u00e9\"", "\"\\ud83d\\ude00\"", "\"é\"", "\"😀\"", "\"\\u0000\"", "\"a\\u0020b\"", "\"\u{7f}\"",
        " ", "\n", "\t", "\r",
    ]
}

/// independent reading of a JSON text (serde_json with arbitrary precision and preserved order)
fn independent(text: &str) -> Option<serde_json::Value> {
    serde_json::from_str::<serde_json::Value>(text).ok()
}

/// compare jaq's value with the independent parser's value
fn agrees(j: &RVal, s: &serde_json::Value) -> bool {
    use serde_json::Value as S;
    match (j, s) {
        (RVal::Null, S::Null) => true,
        (RVal::Bool(a), S::Bool(b)) => a == b,
        (RVal::Str(a, false), S::String(b)) => a == b.as_bytes(),
        (RVal::Arr(a), S::Array(b)) => a.len() == b.len() && a.iter().zip(b).all(|(x, y)| agrees(x, y)),
        (RVal::Obj(a), S::Object(b)) => {
            // duplicate keys: the last value wins in both; order of first occurrence
            a.len() == b.len() && a.iter().zip(b.iter()).all(|((k, v), (k2, v2))| matches!(k, RVal::Str(x, false) if x == k2.as_bytes()) && agrees(v, v2))
        }
        (RVal::Int(i), S::Number(n)) => {
            let lit = n.to_string();
            // integer literals keep their exact value at any size
            !lit.contains(['.', 'e', 'E']) && lit.parse::<num_bigint::BigInt>().map_or(false, |b| &b == i)
        }
        // non-integer literals are kept character for character
        // (serde_json normalises the exponent spelling: compare modulo `E` / `e+`)
        (RVal::Dec(d), S::Number(n)) => {
            let norm = |s: &str| s.replace('E', "e").replace("e+", "e");
            norm(d) == norm(&n.to_string())
        }
        _ => false,
    }
}

pub fn main(tier: Tier) -> ! {
    jq::quiet_panics();
    let run = Run::new("C07", "model_checking", tier);
    let f = jq::compile("[tojson, (tojson | fromjson), (tojson | fromjson | tojson)]", &[]).expect("roundtrip program");

    // ---------------------------------------------------------- strings
    let maxlen = if run.quick() { 2 } else { 3 };
    let bss = byte_strings(maxlen);
    let c = bss
        .par_chunks(256)
        .map(|ch| {
            let mut c = Counts::default();
            for b in ch {
                roundtrip_ok(&run, &mut c, &f, "text string", &RVal::Str(b.clone(), false));
                roundtrip_ok(&run, &mut c, &f, "byte string", &RVal::Str(b.clone(), true));
            }
            c
        })
        .reduce(Counts::default, Counts::merge);
    run.family("strings", json!({"alphabet_bytes": ALPHA.len(), "max_length": maxlen, "strings_each_kind": bss.len()}));
    run.add(c);
    run.bound_done(format!("all text and byte strings of length <= {maxlen} over {} structurally significant bytes", ALPHA.len()));

    // ---------------------------------------------------------- numbers
    let mut nums: Vec<RVal> = gen::nums();
    // floats m * 10^e and powers of two with neighbours
    let estep = if run.quick() { 7 } else { 1 };
    for e in (-326..=308).step_by(estep) {
        for m in (1..=999).step_by(if run.quick() { 13 } else { 1 }) {
            if let Ok(x) = format!("{m}e{e}").parse::<f64>() {
                if x.is_finite() {
                    nums.push(RVal::Float(x));
                    nums.push(RVal::Float(-x));
                }
            }
        }
    }
    for k in -1074..=1023 {
        let x = 2f64.powi(k);
        for y in [x, f64::from_bits(x.to_bits() + 1), f64::from_bits(x.to_bits().saturating_sub(1))] {
            if y.is_finite() {
                nums.push(RVal::Float(y));
            }
        }
    }
    // integers n * 10^k and 2^k +- 1 up to 2^200
    let two = num_bigint::BigInt::from(2);
    for k in 0..=200u32 {
        let p = num_traits::pow(two.clone(), k as usize);
        for d in [-1i64, 0, 1] {
            nums.push(RVal::Int(&p + d));
            nums.push(RVal::Int(-(&p + d)));
        }
    }
    let ten = num_bigint::BigInt::from(10);
    for k in 0..=40usize {
        for n in [1i64, 7, 99] {
            nums.push(RVal::Int(num_traits::pow(ten.clone(), k) * n));
        }
    }
    for d in ["1.10", "1E5", "1e+2", "0.0", "-0.0", "1e1000", "1e-400", "00.5", "1.0", "100e-2", "0.1e1", "9007199254740993.0", "1.7976931348623159e308", "-1e-999", "0e0"] {
        nums.push(RVal::Dec(d.into()));
    }
    let c = nums
        .par_chunks(512)
        .map(|ch| {
            let mut c = Counts::default();
            for v in ch {
                roundtrip_ok(&run, &mut c, &f, "number", v);
            }
            c
        })
        .reduce(Counts::default, Counts::merge);
    run.family("numbers", json!({"numbers": nums.len()}));
    run.add(c);
    run.bound_done(format!("{} numbers: every representation boundary, m*10^e grid, 2^k with neighbours, integers to 2^200, decimal spellings", nums.len()));

    // ---------------------------------------------------------- trees with arbitrary keys, every insertion order
    let atoms: Vec<RVal> = vec![RVal::Null, RVal::Bool(true), rv::int(1), RVal::Float(1.5), RVal::Float(f64::NAN), RVal::Float(f64::NEG_INFINITY), RVal::Dec("1.10".into()), rv::s("a"), rv::s("\u{7f}\"\\"), rv::bs(b"\xff\x00"), gen::big("18446744073709551616")];
    let keys: Vec<RVal> = vec![rv::s("a"), rv::s(""), rv::int(0), RVal::Null, RVal::Float(1.5), rv::bs(b"k"), RVal::Arr(vec![rv::int(1)]), RVal::Obj(vec![(rv::s("x"), rv::int(1))])];
    let trees = {
        let d1 = gen::trees(&atoms, &keys, 1, 2);
        let inner: Vec<RVal> = atoms.iter().cloned().chain(d1.iter().filter(|x| matches!(x, RVal::Arr(_) | RVal::Obj(_))).step_by(if run.quick() { 97 } else { 23 }).cloned()).collect();
        let mut t = d1;
        t.extend(gen::trees(&inner, &keys[..4], 1, 2));
        t
    };
    let c = trees
        .par_chunks(256)
        .map(|ch| {
            let mut c = Counts::default();
            for v in ch {
                roundtrip_ok(&run, &mut c, &f, "tree", v);
            }
            c
        })
        .reduce(Counts::default, Counts::merge);
    run.family("trees", json!({"trees": trees.len()}));
    run.add(c);
    run.bound_done(format!("{} trees of depth <= 2 with arbitrary values as keys in every insertion order", trees.len()));

    // ---------------------------------------------------------- command line: every output option piped back in
    let mut cli_vals: Vec<RVal> = vec![];
    cli_vals.extend(bss.iter().step_by(if run.quick() { 5 } else { 11 }).map(|b| RVal::Str(b.clone(), false)));
    cli_vals.extend(bss.iter().step_by(if run.quick() { 7 } else { 13 }).map(|b| RVal::Str(b.clone(), true)));
    cli_vals.extend(nums.iter().step_by(if run.quick() { 17 } else { 3 }).cloned());
    cli_vals.extend(trees.iter().step_by(if run.quick() { 3 } else { 1 }).cloned());
    let mut file: Vec<u8> = vec![];
    for v in &cli_vals {
        rv::to_json(v, &mut file);
        file.push(b'\n');
    }
    let mut sorted_file: Vec<u8> = vec![];
    for v in &cli_vals {
        rv::to_json(&sort_keys(v), &mut sorted_file);
        sorted_file.push(b'\n');
    }
    let mut c = Counts::default();
    let option_sets: Vec<(Vec<&str>, bool)> = vec![
        (vec!["-c", "."], false),
        (vec!["."], false),
        (vec!["--tab", "."], false),
        (vec!["--indent", "0", "."], false),
        (vec!["--indent", "1", "."], false),
        (vec!["--indent", "7", "."], false),
        (vec!["-S", "."], true),
        (vec!["-cS", "."], true),
        (vec!["-S", "--tab", "."], true),
        (vec!["-M", "."], false),
    ];
    for (opts, sorted) in &option_sets {
        let (out1, code1) = run_jaq(opts, &file);
        let (out2, code2) = if opts.contains(&"-c") || opts.contains(&"-cS") { (out1.clone(), 0) } else { run_jaq(&["-c", "."], &out1) };
        let expect = if *sorted { &sorted_file } else { &file };
        let key = format!("cli roundtrip with options {:?}", opts);
        c.case(h64(&key), true, h64(&opts.join(" ")));
        c.transitions += cli_vals.len() as u64;
        if code1 != 0 || code2 != 0 || &out2 != expect {
            // find the first differing line
            let a: Vec<&[u8]> = out2.split(|b| *b == b'\n').collect();
            let e: Vec<&[u8]> = expect.split(|b| *b == b'\n').collect();
            let i = a.iter().zip(e.iter()).position(|(x, y)| x != y).unwrap_or(a.len().min(e.len()));
            run.violation(
                &key,
                json!({"options": opts, "exit_codes": [code1, code2], "values": cli_vals.len(), "first_differing_value_index": i,
                       "expected_line": e.get(i).map(|l| String::from_utf8_lossy(l).into_owned()), "got_line": a.get(i).map(|l| String::from_utf8_lossy(l).into_owned())}),
            );
        }
    }
    run.family("command line", json!({"values": cli_vals.len(), "option_sets": option_sets.iter().map(|o| o.0.join(" ")).collect::<Vec<_>>()}));
    run.add(c);

    // ---------------------------------------------------------- RFC 8259 texts against an independent parser
    let toks = tokens();
    let maxtok = if run.quick() { 4 } else { 5 };
    let pf = jq::compile("fromjson", &[]).unwrap();
    // enumerate token strings by index (base-n numbers of each length)
    let mut totals: Vec<(usize, u64)> = vec![];
    for l in 1..=maxtok {
        totals.push((l, (toks.len() as u64).pow(l as u32)));
    }
    let mut c_total = Counts::default();
    let mut accepted_total = 0u64;
    for (l, total) in totals {
        if !run.time_left() && l > 3 {
            run.bound_capped(format!("RFC 8259 texts: token length {l} not started (wall budget)"));
            break;
        }
        let (c, acc) = (0..total)
            .into_par_iter()
            .fold(
                || (Counts::default(), 0u64),
                |(mut c, mut acc), idx| {
                    let mut i = idx;
                    let mut text = String::new();
                    for _ in 0..l {
                        text.push_str(toks[(i % toks.len() as u64) as usize]);
                        i /= toks.len() as u64;
                    }
                    if let Some(s) = independent(&text) {
                        acc += 1;
                        let key = format!("rfc8259 text {text:?}");
                        let out = jq::run_vals(&pf, jq::to_val(&rv::s(&text)), vec![], 3);
                        c.case(h64(&key), !matches!(s, serde_json::Value::Null), h64(&s.to_string().len()));
                        c.transitions += 1;
                        let ok = match &out {
                            Ok(o) if o.len() == 1 => matches!(&o[0], Ok(v) if agrees(&jq::to_rval(v), &s)),
                            _ => false,
                        };
                        // "printed character for character as read"
                        let ok2 = if let (true, serde_json::Value::Number(_)) = (ok, &s) {
                            let lit = text.trim_matches([' ', '\n', '\t', '\r']).to_string();
                            // integer literals only keep their exact value (checked above)
                            !lit.contains(['.', 'e', 'E']) ||
                            matches!(&out, Ok(o) if matches!(&o[0], Ok(v) if v.to_string() == lit))
                        } else {
                            true
                        };
                        if !ok || !ok2 {
                            let got = match &out {
                                Ok(o) => format!("{:?}", o.iter().map(|x| x.as_ref().map(|v| v.to_string()).map_err(|e| jq::ev_json(e).to_string())).collect::<Vec<_>>()),
                                Err(p) => format!("panic: {p}"),
                            };
                            run.violation(&key, json!({"text": text, "independent_parser": s.to_string(), "jaq": got}));
                        }
                    }
                    (c, acc)
                },
            )
            .reduce(|| (Counts::default(), 0), |a, b| (a.0.merge(b.0), a.1 + b.1));
        accepted_total += acc;
        c_total = c_total.merge(c);
        run.bound_done(format!("all strings of {l} tokens over {} RFC 8259 tokens ({total} strings, {acc} valid texts)", toks.len()));
    }
    run.family("rfc8259 texts", json!({"tokens": toks.len(), "valid_texts": accepted_total}));
    run.add(c_total);

    // ---------------------------------------------------------- insignificant whitespace at every structural position
    // RFC 8259: ws is allowed before and after every structural character and around the value
    let bases: Vec<Vec<&str>> = vec![
        vec!["{", "\"a\"", ":", "1", "}"],
        vec!["{", "\"a\"", ":", "[", "1", ",", "2", "]", ",", "\"b\"", ":", "{", "\"c\"", ":", "null", "}", "}"],
        vec!["[", "]"],
        vec!["{", "}"],
        vec!["[", "[", "]", ",", "{", "}", ",", "\"s\"", ",", "-1.5e3", ",", "true", "]"],
        vec!["{", "\"k\"", ":", "\"v\"", ",", "\"\"", ":", "false", "}"],
        vec!["[", "{", "\"a\"", ":", "[", "{", "\"b\"", ":", "0", "}", "]", "}", "]"],
        vec!["\"x\""],
        vec!["12"],
    ];
    let wss = [" ", "\t", "\n", "\r", " \t\r\n "];
    let mut c = Counts::default();
    for base in &bases {
        let plain: String = base.concat();
        let want = independent(&plain).expect("base text is valid JSON");
        let mut variants: Vec<String> = vec![];
        for ws in wss {
            // one gap at a time (gap 0 = before the first token, gap n = after the last), then all gaps
            for g in 0..=base.len() {
                let mut s = String::new();
                for (i, t) in base.iter().enumerate() {
                    if i == g {
                        s.push_str(ws);
                    }
                    s.push_str(t);
                }
                if g == base.len() {
                    s.push_str(ws);
                }
                variants.push(s);
            }
            variants.push(format!("{ws}{}{ws}", base.join(ws)));
        }
        for text in variants {
            let key = format!("whitespace: {text:?}");
            c.case(h64(&key), true, h64(&plain));
            c.transitions += 1;
            // the independent parser must agree that the text is valid and denotes the same value
            if independent(&text).as_ref() != Some(&want) {
                continue;
            }
            let out = jq::run_vals(&pf, jq::to_val(&rv::s(&text)), vec![], 3);
            let ok = matches!(&out, Ok(o) if o.len() == 1 && matches!(&o[0], Ok(v) if agrees(&jq::to_rval(v), &want)));
            if !ok {
                let got = match &out {
                    Ok(o) => format!("{:?}", o.iter().map(|x| x.as_ref().map(|v| v.to_string()).map_err(|e| jq::ev_json(e).to_string())).collect::<Vec<_>>()),
                    Err(p) => format!("panic: {p}"),
                };
                run.violation(&key, json!({"text": text, "independent_parser": want.to_string(), "jaq": got}));
            }
        }
    }
    run.family("insignificant whitespace", json!({"base_texts": bases.len(), "whitespace_kinds": wss.len(), "texts": c.evaluations}));
    run.bound_done(format!("{} base texts x {} kinds of whitespace x (every single gap, all gaps)", bases.len(), wss.len()));
    run.add(c);
    run.sample(json!({"string_value": rv::json_string(&RVal::Str(vec![0x7f, b'"', 0xff], false)), "byte_string_value": rv::json_string(&RVal::Str(vec![0x7f, b'"', 0xff], true))}));
    run.sample(json!({"tree": rv::json_string(&trees[trees.len() / 2])}));
    run.sample(json!({"rfc8259_tokens": toks}));

    run.finish(
        "values: all text and byte strings of length <= 2 (thorough 3) over 30 structurally significant bytes, every number representation and boundary, the float grid m*10^e and 2^k with neighbours, integers n*10^k and 2^k+-1 up to 2^200, decimal spellings, trees of depth <= 2 with arbitrary values as keys in every insertion order; each through [tojson, tojson|fromjson, tojson|fromjson|tojson] (same printed form, same class/bits/bytes/key order, text equal to an independent model printer) and through the command line with ten output-option sets piped back into `jaq -c .`; texts: every string of <= 4 (thorough 5) tokens over 42 RFC 8259 tokens that an independent parser (serde_json, arbitrary precision, preserved order) accepts must be accepted by fromjson with the same value, exact integers, and non-integer literals printed character for character. non-trivial = value other than null",
        &["serde_json (arbitrary_precision, preserve_order) is the independent JSON parser", "the model printer is transcribed from docs/formats.dj (XJON)"],
    )
}
