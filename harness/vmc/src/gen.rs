//! Exhaustive enumerators: terms by constructor count over an alphabet, small value trees.
use crate::rterm::T;
use crate::rval::{self as rv, RVal};
use rayon::prelude::*;

type F1 = Box<dyn Fn(T) -> T + Sync + Send>;
type F2 = Box<dyn Fn(T, T) -> T + Sync + Send>;
type F3 = Box<dyn Fn(T, T, T) -> T + Sync + Send>;
type F4 = Box<dyn Fn(T, T, T, T) -> T + Sync + Send>;

#[derive(Default)]
pub struct Alphabet {
    pub leaves: Vec<T>,
    pub un: Vec<F1>,
    pub bin: Vec<F2>,
    pub ter: Vec<F3>,
    pub quad: Vec<F4>,
}

/// all terms with exactly 1..=n constructor nodes, materialised (index = size)
pub fn terms_by_size(a: &Alphabet, n: usize) -> Vec<Vec<T>> {
    let mut by: Vec<Vec<T>> = vec![vec![], a.leaves.clone()];
    for s in 2..=n {
        let mut out = vec![];
        stream_size(a, &by, s, &mut |t| out.push(t));
        by.push(out);
    }
    by
}

/// number of terms of size `s`, given materialised smaller sizes
pub fn count_size(a: &Alphabet, by: &[Vec<T>], s: usize) -> usize {
    let c = |i: usize| by.get(i).map_or(0, |v| v.len());
    let mut n = 0;
    if s >= 2 {
        n += a.un.len() * c(s - 1);
    }
    for x in 1..s.saturating_sub(1) {
        let y = s - 1 - x;
        if y >= 1 {
            n += a.bin.len() * c(x) * c(y);
        }
    }
    if !a.ter.is_empty() {
        for x in 1..s {
            for y in 1..s {
                if x + y + 1 < s {
                    n += a.ter.len() * c(x) * c(y) * c(s - 1 - x - y);
                }
            }
        }
    }
    if !a.quad.is_empty() {
        for x in 1..s {
            for y in 1..s {
                for z in 1..s {
                    if x + y + z + 1 < s {
                        n += a.quad.len() * c(x) * c(y) * c(z) * c(s - 1 - x - y - z);
                    }
                }
            }
        }
    }
    n
}

/// call `f` on every term of size exactly `s` (smaller sizes must be materialised in `by`)
pub fn stream_size(a: &Alphabet, by: &[Vec<T>], s: usize, f: &mut dyn FnMut(T)) {
    if s < 2 {
        return;
    }
    for u in &a.un {
        for x in &by[s - 1] {
            f(u(x.clone()));
        }
    }
    for sx in 1..s - 1 {
        let sy = s - 1 - sx;
        if sy < 1 {
            continue;
        }
        for b in &a.bin {
            for x in &by[sx] {
                for y in &by[sy] {
                    f(b(x.clone(), y.clone()));
                }
            }
        }
    }
    for sx in 1..s {
        for sy in 1..s {
            if sx + sy + 1 >= s {
                continue;
            }
            let sz = s - 1 - sx - sy;
            for t in &a.ter {
                for x in &by[sx] {
                    for y in &by[sy] {
                        for z in &by[sz] {
                            f(t(x.clone(), y.clone(), z.clone()));
                        }
                    }
                }
            }
        }
    }
    for sx in 1..s {
        for sy in 1..s {
            for sz in 1..s {
                if sx + sy + sz + 1 >= s {
                    continue;
                }
                let sw = s - 1 - sx - sy - sz;
                for q in &a.quad {
                    for x in &by[sx] {
                        for y in &by[sy] {
                            for z in &by[sz] {
                                for w in &by[sw] {
                                    f(q(x.clone(), y.clone(), z.clone(), w.clone()));
                                }
                            }
                        }
                    }
                }
            }
        }
    }
}

/// parallel version: `f` is called on every term of size `s` from worker threads; results are folded
pub fn par_size<C: Send>(a: &Alphabet, by: &[Vec<T>], s: usize, init: impl Fn() -> C + Sync + Send, f: impl Fn(&mut C, T) + Sync + Send, merge: impl Fn(C, C) -> C + Sync + Send) -> C {
    // jobs: (kind, constructor index, first operand) — the remaining operands are looped sequentially
    let mut jobs: Vec<(u8, usize, usize, usize)> = vec![]; // kind, ctor, size split code, x index
    if s >= 2 {
        for u in 0..a.un.len() {
            for x in 0..by[s - 1].len() {
                jobs.push((1, u, 0, x));
            }
        }
        for sx in 1..s - 1 {
            for b in 0..a.bin.len() {
                for x in 0..by[sx].len() {
                    jobs.push((2, b, sx, x));
                }
            }
        }
        for sx in 1..s {
            for t in 0..a.ter.len() {
                for x in 0..by[sx].len() {
                    jobs.push((3, t, sx, x));
                }
            }
            for q in 0..a.quad.len() {
                for x in 0..by[sx].len() {
                    jobs.push((4, q, sx, x));
                }
            }
        }
    }
    jobs.into_par_iter()
        .fold(&init, |mut c, (kind, ci, sx, xi)| {
            match kind {
                1 => f(&mut c, a.un[ci](by[s - 1][xi].clone())),
                2 => {
                    let sy = s - 1 - sx;
                    let x = &by[sx][xi];
                    for y in &by[sy] {
                        f(&mut c, a.bin[ci](x.clone(), y.clone()));
                    }
                }
                3 => {
                    let x = &by[sx][xi];
                    for sy in 1..s {
                        if sx + sy + 1 >= s {
                            continue;
                        }
                        let sz = s - 1 - sx - sy;
                        for y in &by[sy] {
                            for z in &by[sz] {
                                f(&mut c, a.ter[ci](x.clone(), y.clone(), z.clone()));
                            }
                        }
                    }
                }
                _ => {
                    let x = &by[sx][xi];
                    for sy in 1..s {
                        for sz in 1..s {
                            if sx + sy + sz + 1 >= s {
                                continue;
                            }
                            let sw = s - 1 - sx - sy - sz;
                            for y in &by[sy] {
                                for z in &by[sz] {
                                    for w in &by[sw] {
                                        f(&mut c, a.quad[ci](x.clone(), y.clone(), z.clone(), w.clone()));
                                    }
                                }
                            }
                        }
                    }
                }
            }
            c
        })
        .reduce(&init, &merge)
}

// ------------------------------------------------------------------ values

/// TREE(d, w): all values of depth <= d, arrays of length <= w, objects with <= w entries
/// (keys from `keys`, every insertion order) over the given atoms.
pub fn trees(atoms: &[RVal], keys: &[RVal], d: usize, w: usize) -> Vec<RVal> {
    let mut cur: Vec<RVal> = atoms.to_vec();
    for _ in 0..d {
        let mut next = atoms.to_vec();
        // arrays
        let mut seqs: Vec<Vec<RVal>> = vec![vec![]];
        let mut frontier: Vec<Vec<RVal>> = vec![vec![]];
        for _ in 0..w {
            let mut nf = vec![];
            for s in &frontier {
                for x in &cur {
                    let mut s2 = s.clone();
                    s2.push(x.clone());
                    nf.push(s2);
                }
            }
            seqs.extend(nf.iter().cloned());
            frontier = nf;
        }
        for s in &seqs {
            next.push(RVal::Arr(s.clone()));
        }
        // objects: ordered selections of distinct keys
        let mut objs: Vec<Vec<(RVal, RVal)>> = vec![vec![]];
        let mut frontier: Vec<Vec<(RVal, RVal)>> = vec![vec![]];
        for _ in 0..w {
            let mut nf = vec![];
            for o in &frontier {
                for k in keys {
                    if o.iter().any(|(k2, _)| rv::eq(k, k2)) {
                        continue;
                    }
                    for x in &cur {
                        let mut o2 = o.clone();
                        o2.push((k.clone(), x.clone()));
                        nf.push(o2);
                    }
                }
            }
            objs.extend(nf.iter().cloned());
            frontier = nf;
        }
        for o in objs {
            next.push(RVal::Obj(o));
        }
        cur = next;
    }
    cur
}

pub fn big(s: &str) -> RVal {
    RVal::Int(s.parse().unwrap())
}

/// NUM: every representation and boundary (see DESIGN.md §2)
pub fn nums() -> Vec<RVal> {
    let mut v = vec![];
    for s in [
        "0", "1", "-1", "2", "255", "256", "2147483647", "-2147483647", "2147483648", "-2147483648", "9007199254740991", "9007199254740992", "9007199254740993", "9223372036854775807", "-9223372036854775807", "9223372036854775808",
        "-9223372036854775808", "9223372036854775809", "-9223372036854775809", "18446744073709551616", "1000000000000000000000000000000", "-1000000000000000000000000000000",
    ] {
        v.push(big(s));
    }
    for f in [0.0, -0.0, 0.5, 1.0, 1.5, -1.5, 9007199254740992.0, 1e300, 5e-324, f64::INFINITY, f64::NEG_INFINITY, f64::NAN] {
        v.push(RVal::Float(f));
    }
    for d in ["1.0", "1e0", "1.10", "0.0", "-0.0", "1e1000", "-1e1000", "1E5"] {
        v.push(RVal::Dec(d.into()));
    }
    v
}

/// STR
pub fn strs() -> Vec<RVal> {
    let mut v = vec![];
    for b in [&b""[..], b"a", b"b", b"ab", b"A", "é".as_bytes(), "€".as_bytes(), "😀".as_bytes(), b"\xFF", b"\0"] {
        v.push(RVal::Str(b.to_vec(), false));
    }
    for b in [&b""[..], b"a", b"ab", "é".as_bytes(), b"\xFF"] {
        v.push(RVal::Str(b.to_vec(), true));
    }
    v
}
