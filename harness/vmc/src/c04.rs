//! C04 — tail-recursive definitions run in constant stack and constant memory.
//! Every program of a generator of tail-recursive definition nests (how the recursion reaches the
//! definition x through which tail position x which arguments are passed on x how the result is
//! consumed) is run for N and 2N iterations on a worker thread with a small fixed stack, with the
//! thread's live heap tracked: it must finish with the right result, and the peak live heap at 2N may
//! exceed the peak at N only by a constant. A stack overflow is caught on an alternate signal stack
//! and reported for the running program.
use crate::ev::{h64, Counts, Run, Tier};
use crate::heap;
use crate::jq;
use jaq_all::json::Val;
use serde_json::json;
use std::sync::mpsc;
use std::sync::{Arc, Mutex};

/// stack of the worker threads: fixed, independent of N
const STACK: usize = 1 << 20;
/// allowed growth of the peak live heap from N to 2N iterations
const HEAP_SLACK: isize = 64 << 10;

/// how the recursive call reaches `f` again: a template with BODY (uses REC for the recursive call)
const SHAPES: &[(&str, &str)] = &[
    ("self", "def f@ARGS@: BODY; "),
    ("child calls parent", "def f@ARGS@: def g: BODY; g; "),
    ("grandchild calls grandparent", "def f@ARGS@: def g: def h: BODY; h; g; "),
    ("nested sibling calls sibling calls parent", "def f@ARGS@: def a: BODY; def b: a; b; "),
    ("after a local definition", "def f@ARGS@: def aux: .; aux | BODY; "),
];

/// tail positions: POS with STEP (advances the counter) and REC (the recursive call)
const POSITIONS: &[(&str, &str)] = &[
    ("right of |", "STEP | REC"),
    ("right of ,", "empty, (STEP | REC)"),
    ("right of //", "empty // (STEP | REC)"),
    ("right of as $x |", "STEP | . as $x | REC"),
    ("then and else", "if . % 2 == 0 then (STEP | REC) else (STEP | REC) end"),
    ("elif", "if . < 0 then . elif . % 3 == 0 then (STEP | REC) else (STEP | REC) end"),
    ("projection of foreach", "foreach 1 as $x (.; STEP; REC)"),
    ("after a local def", "def st: STEP; st | REC"),
    ("nested pipes and bindings", "1 as $a | STEP | 2 as $b | (. | REC)"),
];

/// arguments passed on to the recursive call: (name, parameter list, step, recursive call, initial call)
const ARGS: &[(&str, &str, &str, &str, &str)] = &[
    ("no arguments", "", ". + 1", "f", "f"),
    ("variable argument", "($k)", ". + $k", "f($k)", "f(1)"),
    ("filter argument", "(s)", "s", "f(s)", "f(. + 1)"),
    ("variable and filter argument", "($k; s)", "s | . + $k - 1", "f($k; s)", "f(1; . + 1)"),
];

/// how the loop is consumed: MAIN with CALL = `0 | f..`; the expected single result is $n
const MODES: &[(&str, &str)] = &[
    ("values", "0 | CALL"),
    ("first", "first(0 | CALL)"),
    ("limit", "limit(1; 0 | CALL)"),
    ("label", "label $out | 0 | CALL | ., break $out"),
    ("last of a pipe", "[0 | CALL] | .[0]"),
    ("under try", "try (0 | CALL) catch -1"),
];

/// generators that yield one output per iteration (the harness pulls N outputs and drops each)
const STREAMS: &[(&str, &str)] = &[
    ("def f: ., f", "def f: ., f; 0 | f"),
    ("def f: ., (. + 1 | f)", "def f: ., (. + 1 | f); 0 | f"),
    ("child calls parent stream", "def f: def g: ., (. + 1 | f); g; 0 | f"),
    ("stream with variable argument", "def f($k): ., (. + $k | f($k)); 0 | f(1)"),
    ("stream with filter argument", "def f(s): ., (s | f(s)); 0 | f(. + 1)"),
    ("repeat", "0 | repeat(. + 1)"),
    ("recurse(f)", "0 | recurse(. + 1)"),
    ("recurse(f; cond)", "0 | recurse(. + 1; true)"),
    ("while", "0 | while(true; . + 1)"),
    ("range/3 upwards", "range(0; infinite; 1)"),
    ("range with fractional step", "range(0; infinite; 0.5)"),
    ("limit of repeat", "limit(1e9; repeat(1))"),
    ("paths of a stream", "path(def f: ., f; f)"),
    ("paths of repeat", "path(repeat(.))"),
    ("stream through as", "def f: . as $x | $x, ($x + 1 | f); 0 | f"),
    ("stream through //", "def f: ., (empty // (. + 1 | f)); 0 | f"),
    ("stream through if", "def f: ., if true then (. + 1 | f) else empty end; 0 | f"),
    ("foreach over a stream", "foreach (def f: ., f; 1 | f) as $x (0; . + $x)"),
    ("foreach over repeat with projection", "foreach repeat(1) as $x (0; . + $x; [$x, .] | .[1])"),
    ("limit under label", "label $l | (def f: ., f; 0 | f)"),
    ("select over a stream", "0 | recurse(. + 1) | select(. % 2 == 0)"),
];

/// single-result built-in loops: must yield $n
const LOOPS: &[(&str, &str)] = &[
    ("child that recurses on itself and calls its parent", "def f: def g: if . % 2 == 1 then . + 1 | g elif . < $n then . + 1 | f else . end; g; 0 | f"),
    ("two children calling each other's parent", "def f: def g: if . < $n then . + 1 | f else . end; def h: if . % 3 == 0 then g else . + 1 | f end; if . < $n then h else . end; 0 | f"),
    ("grandchild that recurses on itself, its parent and its grandparent", "def f: def g: def h: if . % 3 == 1 then . + 1 | h elif . % 3 == 2 then . + 1 | g elif . < $n then . + 1 | f else . end; h; g; 0 | f | if . >= $n then $n else . end"),
    ("until", "0 | until(. >= $n; . + 1)"),
    ("last(range)", "last(range($n + 1))"),
    ("last(limit(recurse))", "last(limit($n + 1; 0 | recurse(. + 1)))"),
    ("last(limit(repeat))", "last(limit($n; repeat($n)))"),
    ("nth", "nth($n; 0 | recurse(. + 1))"),
    ("last(while)", "last(0 | while(. <= $n; . + 1))"),
    ("reduce over range", "reduce range($n) as $x (0; . + 1)"),
    ("foreach over range, last", "last(foreach range($n) as $x (0; . + 1))"),
    ("first after skip", "first(skip($n; range(0; infinite)))"),
    ("any over range", "if any(range(0; infinite); . >= $n) then $n else -1 end"),
    ("all over range", "if all(range($n); . >= 0) then $n else -1 end"),
    ("isempty of a long stream", "if isempty(range($n) | select(. < 0)) then $n else -1 end"),
    ("reduce with update on path", "reduce range($n) as $x ({a: 0}; .a += 1) | .a"),
    ("length of .. on a flat array", "[range(1000)] | [..] | length | . - 1001 + $n"),
    ("add over range", "[limit(1000; range($n))] | length | . - 1000 + $n"),
    ("getpath loop", "last(limit($n + 1; {a: 0} | recurse(.a += 1))) | .a"),
    ("label break in a long loop", "label $l | 0 | recurse(. + 1) | if . >= $n then ., break $l else empty end"),
    ("first(select) in a long stream", "first(range(0; infinite) | select(. >= $n))"),
    ("limit(1) of a long selection", "limit(1; 0 | recurse(. + 1) | select(. >= $n))"),
];

/// the step left of the tail call (or the stream folded by `foreach`) is a one-output generator of another kind
const STEPS: &[(&str, &str)] = &[
    ("step through first", "def f: if . >= $n then . else first(. + 1) | f end; 0 | f"),
    ("step through an array iteration", "def f: if . >= $n then . else [. + 1][] | f end; 0 | f"),
    ("step through select", "def f: if . >= $n then . else (. + 1 | select(true)) | f end; 0 | f"),
    ("step through a binding", "def f: if . >= $n then . else (. + 1 as $x | $x) | f end; 0 | f"),
    ("step through an object", "def f: if .a >= $n then .a else {a: (.a + 1)} | f end; {a: 0} | f"),
    ("step through if", "def f: if . >= $n then . else (if . then . + 1 else 0 end) | f end; 0 | f"),
    ("step through alternative", "def f: if . >= $n then . else (. + 1 // 0) | f end; 0 | f"),
    ("foreach over a one-element array", "def f: if . >= $n then . else foreach [0][] as $x (.; . + 1; f) end; 0 | f"),
    ("foreach over a literal", "def f: if . >= $n then . else foreach 0 as $x (.; . + 1; f) end; 0 | f"),
    ("foreach over two values, call at the last", "def f: if . >= $n then . else foreach (1, 2) as $x (.; . + 1; if $x == 2 then f else empty end) end; 0 | f"),
    ("foreach over array elements, call at the last", "def f: if .[0] >= $n then .[0] else foreach .[1:][] as $x (.; .[0] += $x; if $x == 2 then f else empty end) end; [0, 0, 2] | f"),
    ("foreach over two values, call at the last, path mode", "def f($i): if $i >= $n then . else foreach (1, 2) as $x (.; .; if $x == 2 then f($i + 1) else empty end) end; [[7]] | [path(f(0))] | length - 1 + $n"),
    ("step through try","def f: if . >= $n then . else (. + 1)? | f end; 0 | f"),
    ("step through try-catch", "def f: if . >= $n then . else (try (. + 1) catch 0) | f end; 0 | f"),
    ("step through limit(1)", "def f: if . >= $n then . else limit(1; . + 1) | f end; 0 | f"),
    ("foreach over range(1)", "def f: if . >= $n then . else foreach range(1) as $x (.; . + 1; f) end; 0 | f"),
];

#[derive(Clone)]
enum Kind {
    /// yields exactly one value, which must be $n
    Result,
    /// pull $n outputs, dropping each
    Stream,
}

#[derive(Clone)]
struct Prog {
    name: String,
    code: String,
    kind: Kind,
}

fn programs() -> Vec<Prog> {
    let mut v = vec![];
    for (sn, shape) in SHAPES {
        for (pn, pos) in POSITIONS {
            for (an, params, step, rec, call) in ARGS {
                let body = format!("if . >= $n then . else {} end", pos.replace("STEP", step).replace("REC", rec));
                let defs = shape.replace("@ARGS@", params).replace("BODY", &body);
                for (mn, mode) in MODES {
                    v.push(Prog { name: format!("{sn} / {pn} / {an} / {mn}"), code: format!("{defs}{}", mode.replace("CALL", call)), kind: Kind::Result });
                }
            }
        }
    }
    for (n, c) in STREAMS {
        v.push(Prog { name: format!("stream: {n}"), code: c.to_string(), kind: Kind::Stream });
    }
    for (n, c) in LOOPS {
        v.push(Prog { name: format!("loop: {n}"), code: c.to_string(), kind: Kind::Result });
    }
    for (n, c) in STEPS {
        v.push(Prog { name: format!("step: {n}"), code: c.to_string(), kind: Kind::Result });
    }
    v
}

#[derive(Debug)]
struct Outcome {
    ok: bool,
    what: String,
    peak: isize,
}

/// run on the calling (small-stack) thread
fn run_one(f: &jq::F, kind: &Kind, n: i64) -> Outcome {
    use jaq_all::data::{Ctx, Data, Runner};
    use jaq_all::jaq_core::Vars;
    use jaq_all::jaq_std::input::RcIter;
    let runner = Runner::default();
    let it: Box<dyn Iterator<Item = Result<Val, String>>> = Box::new(std::iter::empty());
    let rc = RcIter::new(it);
    let data = Data { runner: &runner, lut: &f.lut, inputs: &rc };
    let ctx = Ctx::new(&data, Vars::new([Val::from(n as isize)]));
    let (base, _) = heap::read();
    heap::reset_peak();
    let mut out = f.id.run((ctx, Val::Null));
    let (ok, what) = match kind {
        Kind::Result => match out.next() {
            Some(Ok(v)) => {
                let good = v == Val::from(n as isize);
                let more = if good { out.next().map(|x| format!("{:?}", x.map(|v| v.to_string()).map_err(|_| "error"))) } else { None };
                match (good, more) {
                    (true, None) => (true, String::new()),
                    (true, Some(m)) => (false, format!("a second output: {m}")),
                    (false, _) => (false, format!("result {v} instead of {n}")),
                }
            }
            Some(Err(_)) => (false, "error".to_string()),
            None => (false, "no output".to_string()),
        },
        Kind::Stream => {
            let mut k = 0i64;
            let mut bad = String::new();
            while k < n {
                match out.next() {
                    Some(Ok(v)) => drop(v),
                    Some(Err(_)) => {
                        bad = format!("error after {k} outputs");
                        break;
                    }
                    None => {
                        bad = format!("stream ended after {k} outputs");
                        break;
                    }
                }
                k += 1;
            }
            (bad.is_empty(), bad)
        }
    };
    let (_, peak) = heap::read();
    drop(out);
    Outcome { ok, what, peak: peak - base }
}

type Job = (usize, Arc<jq::F>, Kind, i64, String);

pub fn main(tier: Tier) -> ! {
    jq::quiet_panics();
    let run = Run::new("C04", "exploration", tier);
    let progs = programs();
    let ns: Vec<i64> = if run.quick() { vec![100_000, 200_000] } else { vec![100_000, 200_000, 1_000_000, 2_000_000] };
    eprintln!("[C04] {} programs x N in {:?}, worker stack {} KiB", progs.len(), ns, STACK >> 10);

    // compile everything first (on the roomy main pool)
    let mut compiled: Vec<Option<Arc<jq::F>>> = vec![];
    for p in &progs {
        match jq::compile(&p.code, &["n"]) {
            Ok(f) => compiled.push(Some(Arc::new(f))),
            Err(e) => {
                run.violation(&format!("does not compile (machinery): {}", p.name), json!({"program": p.code, "error": e}));
                compiled.push(None);
            }
        }
    }

    // 16 long-lived workers with a small fixed stack; jobs = (program, N)
    let (tx, rx) = mpsc::channel::<Job>();
    let rx = Arc::new(Mutex::new(rx));
    let (rtx, rrx) = mpsc::channel::<(usize, i64, Outcome)>();
    let mut handles = vec![];
    for w in 0..16 {
        let (rx, rtx) = (rx.clone(), rtx.clone());
        handles.push(
            std::thread::Builder::new()
                .name(format!("c04-worker-{w}"))
                .stack_size(STACK)
                .spawn(move || {
                    crate::ev::thread_altstack();
                    loop {
                        let job = { rx.lock().unwrap().recv() };
                        let Ok((idx, f, kind, n, key)) = job else { break };
                        // registered for the watchdog (divergence) and the overflow handler
                        let o = crate::ev::watched(|| key.clone(), true, || run_one(&f, &kind, n));
                        if rtx.send((idx, n, o)).is_err() {
                            break;
                        }
                    }
                })
                .expect("worker"),
        );
    }
    drop(rtx);
    let mut njobs = 0;
    for (idx, p) in progs.iter().enumerate() {
        if let Some(f) = &compiled[idx] {
            for n in &ns {
                tx.send((idx, f.clone(), p.kind.clone(), *n, format!("{} with N = {n}: {}", p.name, p.code))).unwrap();
                njobs += 1;
            }
        }
    }
    drop(tx);
    let mut peaks: Vec<Vec<(i64, isize)>> = vec![vec![]; progs.len()];
    let mut c = Counts::default();
    for (idx, n, o) in rrx.iter() {
        let p = &progs[idx];
        c.case(h64(&(idx, n)), true, h64(&(o.ok, o.peak >> 12)));
        c.transitions += n as u64;
        if !o.ok {
            run.violation(&format!("{} with N = {n}", p.name), json!({"program": p.code, "n": n, "what": o.what}));
        }
        peaks[idx].push((n, o.peak));
    }
    for h in handles {
        let _ = h.join();
    }
    let mut worst = (0isize, String::new());
    for (idx, p) in progs.iter().enumerate() {
        let mut pk = peaks[idx].clone();
        pk.sort();
        for w in pk.windows(2) {
            let ((n1, p1), (n2, p2)) = (w[0], w[1]);
            let growth = p2 - p1;
            if growth > worst.0 {
                worst = (growth, format!("{} ({n1} -> {n2})", p.name));
            }
            if growth > HEAP_SLACK {
                run.violation(&format!("heap grows with N: {}", p.name), json!({"program": p.code, "peak_live_heap_bytes": {n1.to_string(): p1, n2.to_string(): p2}, "allowed_growth": HEAP_SLACK}));
            }
        }
    }
    run.family("tail-recursive nests", json!({"programs": progs.len(), "runs": njobs, "shapes": SHAPES.len(), "tail_positions": POSITIONS.len(), "argument_forms": ARGS.len(), "consumers": MODES.len(), "streams": STREAMS.len(), "builtin_loops": LOOPS.len(), "one_output_steps": STEPS.len(), "largest_peak_heap_growth_bytes": worst.0, "largest_growth_at": worst.1, "worker_stack_bytes": STACK}));
    run.bound_done(format!("{} programs ({} shapes x {} tail positions x {} argument forms x {} consumers, {} streams, {} built-in loops, {} kinds of one-output step left of the call) x N in {:?}", progs.len(), SHAPES.len(), POSITIONS.len(), ARGS.len(), MODES.len(), STREAMS.len(), LOOPS.len(), STEPS.len(), ns));
    run.add(c);
    run.sample(json!({"example": progs[progs.len() / 3].code, "name": progs[progs.len() / 3].name}));
    run.sample(json!({"shapes": SHAPES.iter().map(|s| s.0).collect::<Vec<_>>(), "tail_positions": POSITIONS.iter().map(|s| s.0).collect::<Vec<_>>(), "arguments": ARGS.iter().map(|s| s.0).collect::<Vec<_>>(), "consumers": MODES.iter().map(|s| s.0).collect::<Vec<_>>()}));
    run.finish(
        "generator: 5 ways the recursion reaches the definition (self, child calls parent, grandchild calls grandparent, nested sibling calls sibling calls parent, after a local definition) x 9 tail positions (right of |, of ,, of //, of `as $x |`, then/else, elif, projection of foreach, after a local def, nested pipes and bindings) x 4 argument forms (none, variable, filter, both passed on) x 6 consumers (values, first, limit, label/break, array, try), plus 21 stream generators (incl. path mode) pulled N times, 22 built-in loops, and 16 loops whose step left of the tail call (or whose folded stream) is a one-output generator of another kind (first, array iteration, select, binding, object, if, //, try, try-catch, limit(1), foreach over a literal / a one-element array / range(1) / several values with the call at the last one, also in path mode); every program runs N and 2N iterations (N = 1e5; thorough also 1e6) on a worker thread with a fixed 1 MiB stack under a per-thread heap counter: the result must be right, no overflow may occur (caught on an alternate signal stack and attributed to the running program), and the peak live heap at 2N may exceed that at N by at most 64 KiB. transitions = loop iterations executed. non-trivial = every run",
        &["built with the shipped evaluation strategy (profile fast: no debug assertions)", "a non-tail-recursive loop of 1e5 iterations needs well over 1 MiB of native stack in this build, so the fixed stack separates the two", "heap is measured per thread by a counting global allocator in the harness"],
    )
}
