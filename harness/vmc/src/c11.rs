//! C11 — stream combinators and generators satisfy their defining equations.
use crate::c01::{check_program, Stats};
use crate::ev::{h64, Counts, Run, Tier};
use crate::jq;
use crate::rterm as rt;
use crate::rval::{self as rv, RVal};
use jaq_all::json::Val;
use rayon::prelude::*;
use serde_json::json;

/// `cap(f)`: outputs of f as {out}, ended by {err} at the first error
const PRE: &str = "def cap(f): [try (f | {out: .}) catch {err: .}]; def errpos: (map(has(\"err\")) | index(true)); def small($n): if $n > 10 then 10 elif $n < 0 then 0 else $n end; ";

/// laws over a stream F (textual placeholder) and a count $n; each must yield `true`
const STREAM_LAWS: &[(&str, &str)] = &[
    ("limit+skip", "cap(limit($n; F), skip($n; F)) == cap(F)"),
    ("skip", "cap(skip($n; F)) == (cap(F) | errpos as $e | if $e != null and $e < $n then [.[$e]] else .[small($n):] end)"),
    ("limit", "cap(limit($n; F)) == (cap(F) | errpos as $e | .[:small($n)] | if $e != null and $e < small($n) then .[:$e+1] end)"),
    ("first", "cap(first(F)) == cap(label $l | F | ., break $l)"),
    ("first-is-limit1", "cap(first(F)) == cap(limit(1; F))"),
    ("last", "cap(last(F)) == (cap(F) | if errpos != null then [.[errpos]] else .[-1:] end)"),
    ("nth", "if $n < 0 then true else cap(nth($n; F)) == cap(first(skip($n; F))) end"),
    ("nth-sem", "if $n < 0 then true else cap(nth($n; F)) == (cap(F) | errpos as $e | if $e != null and $e <= $n then [.[$e]] else .[small($n):][:1] end) end"),
    ("isempty", "cap(isempty(F)) == (cap(F) | if length == 0 then [{out: true}] elif .[0] | has(\"err\") then [.[0]] else [{out: false}] end)"),
    ("any", "cap(any(F; . == 2)) == (cap(F) | errpos as $e | (map(.out == 2) | index(true)) as $t | if $t != null and ($e == null or $t < $e) then [{out: true}] elif $e != null then [.[$e]] else [{out: false}] end)"),
    ("all", "cap(all(F; . != 2)) == (cap(F) | errpos as $e | (map(has(\"out\") and .out == 2) | index(true)) as $t | if $t != null and ($e == null or $t < $e) then [{out: false}] elif $e != null then [.[$e]] else [{out: true}] end)"),
    ("any-def", "cap(any(F; . == 2)) == cap(isempty(F | (. == 2) or empty) | not)"),
    ("all-def", "cap(all(F; . != 2)) == cap(isempty(F | (. != 2) and empty))"),
    ("add", "cap(add(F)) == cap(reduce F as $x (null; . + $x))"),
    ("add-sem", "cap(add(F)) == (cap(F) | if errpos != null then [.[errpos]] elif length == 0 then [{out: null}] else [{out: (map(.out) | .[0] + (.[1:] | if length == 0 then null else (.[0] + (.[1:] | if length == 0 then null else .[0] + (.[1:] | if length == 0 then null else .[0] end) end)) end))}] end)"),
    ("select", "cap(select(F == 1)) == cap(if F == 1 then . else empty end)"),
    ("error", "cap(error(F)) == (cap(F) | if length == 0 then [] elif .[0] | has(\"err\") then [.[0]] else [{err: .[0].out}] end)"),
    ("array", "cap([F]) == (cap(F) | if errpos != null then [.[errpos]] else [{out: map(.out)}] end)"),
    ("errors-once", "cap(F) | (errpos == null or errpos == length - 1)"),
    ("try", "cap(try F) == (cap(F) | map(select(has(\"out\"))))"),
    ("try-catch", "cap(try F catch [.]) == (cap(F) | map(if has(\"err\") then {out: [.err]} end))"),
    ("alt", "cap(F // 9) == (cap(F) | errpos as $e | map(select(has(\"err\") or .out)) | if length == 0 then [{out: 9}] end)"),
    ("pipe-comma", "cap(F | (., 7)) == (cap(F) | map(if has(\"out\") then ., {out: 7} else . end))"),
    ("foreach-id", "cap(foreach F as $x (0; $x)) == cap(F)"),
    ("reduce-last", "cap(reduce F as $x (null; $x)) == (cap(F) | if errpos != null then [.[errpos]] elif length == 0 then [{out: null}] else .[-1:] end)"),
    ("reduce-count", "cap(reduce F as $x (0; . + 1)) == (cap(F) | if errpos != null then [.[errpos]] else [{out: length}] end)"),
    ("foreach-count", "cap(foreach F as $x (0; . + 1; [$x, .])) == (cap(F) | errpos as $e | to_entries | map(if .value | has(\"out\") then {out: [.value.out, .key + 1]} else .value end))"),
    ("limit-repeat", "if cap(F) | (length == 0 or errpos != null) then true else cap(limit(small($n); repeat(F))) == cap(limit(small($n); F, F, F, F, F, F, F, F, F, F, F)) end"),
    ("path-limit", "[1,2,3] | cap(path(limit($n; .[]))) == cap(limit($n; path(.[])))"),
    ("path-first-last", "[1,2,3] | [path(first(.[])), path(last(.[]))] == [[0],[2]]"),
    ("path-skip", "[1,2,3] | cap(path(skip($n; .[]))) == cap(skip($n; path(.[])))"),
];

/// value-level laws on inputs (generators)
const GEN_LAWS: &[(&str, &str)] = &[
    ("range3", "cap(limit(8; range($a; $b; $c))) == cap(limit(8; $a | if $c > 0 then while(. < $b; . + $c) elif $c < 0 then while(. > $b; . + $c) else while(. != $b; . + $c) end))"),
    ("range2", "cap(limit(8; range($a; $b))) == cap(limit(8; range($a; $b; 1)))"),
    ("range1", "cap(limit(8; range($b))) == cap(limit(8; range(0; $b; 1)))"),
    ("range-multi", "cap(limit(12; range($a, $b; $b, $c; 1))) == cap(limit(12; ($a, $b) as $x | ($b, $c) as $y | range($x; $y; 1)))"),
    ("while", "cap(limit(8; $a | while(. != $b; . + $c))) == cap(limit(8; $a | def rec: if . != $b then ., (. + $c | rec) else empty end; rec))"),
    ("until", "if ($c | length) == 0 then true else cap($a | until(. == $b or length > 6; . + $c)) == cap($a | def rec: if . == $b or length > 6 then . else . + $c | rec end; rec) end"),
    ("until-multi-update", "cap(limit(12; 1 | until(. >= 3; . + 1, . + 2))) == cap(limit(12; 1 | def rec: if . >= 3 then . else (. + 1, . + 2) | rec end; rec))"),
    ("until-multi-cond", "cap(limit(12; 2 | until(. >= 3, . >= 4; . + 1))) == cap(limit(12; 2 | def rec: if (. >= 3, . >= 4) then . else . + 1 | rec end; rec))"),
    ("until-unfold", "cap(limit(12; 1 | until(. >= 3; . + 1, . + 2))) == cap(limit(12; 1 | if . >= 3 then . else (. + 1, . + 2) | until(. >= 3; . + 1, . + 2) end))"),
    ("while-multi", "cap(limit(12; 1 | while(. < 3; . + 1, . + 2))) == cap(limit(12; 1 | def rec: if . < 3 then ., ((. + 1, . + 2) | rec) else empty end; rec))"),
    ("recurse-cond-multi", "cap(limit(12; 1 | recurse(. + 1, . + 2; . < 4))) == cap(limit(12; 1 | recurse((. + 1, . + 2) | select(. < 4))))"),
    ("recurse1", "cap(limit(9; [$a, $b] | recurse(.[]?))) == cap(limit(9; [$a, $b] | ., (.[]? | recurse(.[]?))))"),
    ("recurse0", "cap([$a, [$b, {c: $c}]] | [recurse]) == cap([$a, [$b, {c: $c}]] | [recurse(.[]?)])"),
    ("dotdot", "cap([$a, [$b, {c: $c}]] | [..]) == cap([$a, [$b, {c: $c}]] | [recurse])"),
    ("recurse2", "cap(limit(9; 0 | recurse(. + 1; . < 4))) == cap(limit(9; 0 | recurse(. + 1 | select(. < 4))))"),
    ("recurse-multi", "cap(limit(9; 0 | recurse(if . < 2 then (. + 1, . + 2) else empty end))) == ([0, 1, 2, 3, 2] | map({out: .}))"),
    ("repeat", "cap(limit(5; $a | repeat(., $b))) == cap(limit(5; $a, $b, $a, $b, $a, $b))"),
    ("empty", "cap(empty) == [] and cap($a | empty) == []"),
    ("error0", "cap($a | error) == [{err: $a}]"),
    ("error-null", "cap(error(null)) == [{err: null}]"),
    ("reduce-empty", "cap(reduce empty as $x ($a; . + $x)) == [{out: $a}] and cap(foreach empty as $x ($a; . + $x)) == []"),
    ("reduce-multi", "cap(reduce ($a, $b) as $x (0; ., 1)) == cap(0 | $a as $x | (., 1) | $b as $x | (., 1))"),
    ("foreach-multi", "cap(foreach ($a, $b) as $x (0; (., 1); [$x, .])) == cap(0 | ($a as $x | (., 1) | ([$x, .], ($b as $x | (., 1) | [$x, .]))))"),
    ("foreach-2-3", "cap(foreach ($a, $b, $c) as $x (0; . + 1)) == cap(foreach ($a, $b, $c) as $x (0; . + 1; .))"),
    ("limit-inf", "cap(limit(3; repeat($a))) == ([$a, $a, $a] | map({out: .}))"),
    ("select-multi", "cap($a | select(true, false, true)) == [{out: $a}, {out: $a}]"),
];

fn streams(maxlen: usize) -> Vec<Vec<&'static str>> {
    let items = ["1", "2", "error(\"e\")"];
    let mut out: Vec<Vec<&'static str>> = vec![vec![]];
    let mut frontier: Vec<Vec<&'static str>> = vec![vec![]];
    for _ in 0..maxlen {
        let mut nf = vec![];
        for s in &frontier {
            for i in items {
                let mut s2 = s.clone();
                s2.push(i);
                nf.push(s2);
            }
        }
        out.extend(nf.iter().cloned());
        frontier = nf;
    }
    out
}

/// three renderings of the same stream
fn renderings(s: &[&str]) -> Vec<String> {
    let lit = if s.is_empty() { "empty".to_string() } else { format!("({})", s.join(", ")) };
    let arr = format!("[{}]", s.iter().map(|x| if x.starts_with("error") { "\"E\"" } else { x }).collect::<Vec<_>>().join(","));
    let iter = format!("({arr} | .[] | if . == \"E\" then error(\"e\") else . end)");
    let fe = format!("(foreach {arr}[] as $y (0; $y; if . == \"E\" then error(\"e\") else . end))");
    vec![lit, iter, fe]
}

/// the nested-pipe expansion of reduce/foreach for a concrete stream
fn fold_expansions(s: &[&str], init: &str, upd: &str, proj: &str) -> (String, String, String, String) {
    let xs = if s.is_empty() { "empty".to_string() } else { format!("({})", s.join(", ")) };
    let reduce = format!("reduce {xs} as $x ({init}; {upd})");
    let foreach = format!("foreach {xs} as $x ({init}; {upd}; {proj})");
    let mut rexp = init.to_string();
    for x in s {
        rexp = format!("{rexp} | {x} as $x | ({upd})");
    }
    let mut fexp = "empty".to_string();
    for x in s.iter().rev() {
        fexp = format!("{x} as $x | ({upd}) | (({proj}), ({fexp}))");
    }
    let fexp = format!("{init} | ({fexp})");
    (reduce, rexp, foreach, fexp)
}

pub fn main(tier: Tier) -> ! {
    jq::quiet_panics();
    let run = Run::new("C11", "model_checking", tier);
    let maxlen = if run.quick() { 3 } else { 4 };
    let ss = streams(maxlen);
    let big70 = num_bigint::BigInt::from(1u64 << 35) * num_bigint::BigInt::from(1u64 << 35);
    let mut counts: Vec<(String, Val)> = (if run.quick() { -1..=4 } else { -2..=6 }).map(|n: i64| (n.to_string(), Val::from(n as isize))).collect();
    counts.push(("2^63".into(), jq::to_val(&RVal::Int(num_bigint::BigInt::from(1u64 << 63)))));
    counts.push(("2^70".into(), jq::to_val(&RVal::Int(big70.clone()))));
    counts.push(("3 (big)".into(), jq::to_val_big(&rv::int(3))));
    counts.push(("0 (big)".into(), jq::to_val_big(&rv::int(0))));
    counts.push(("1.5".into(), Val::from(1.5)));
    let counts_desc: Vec<String> = counts.iter().map(|c| c.0.clone()).collect();
    drop(counts);

    // ---------------------------------------------------------- stream laws (implementation against the manual's equations)
    let jobs: Vec<(usize, usize)> = (0..ss.len()).flat_map(|i| (0..3).map(move |r| (i, r))).collect();
    let c = jobs
        .par_iter()
        .map(|&(si, ri)| {
            let mut c = Counts::default();
            let f = &renderings(&ss[si])[ri];
            let counts: Vec<(String, Val)> = {
                let mut v: Vec<(String, Val)> = (if run.quick() { -1..=4 } else { -2..=6 }).map(|n: i64| (n.to_string(), Val::from(n as isize))).collect();
                v.push(("2^63".into(), jq::to_val(&RVal::Int(num_bigint::BigInt::from(1u64 << 63)))));
                v.push(("2^70".into(), jq::to_val(&RVal::Int(big70.clone()))));
                v.push(("3 (big)".into(), jq::to_val_big(&rv::int(3))));
                v.push(("0 (big)".into(), jq::to_val_big(&rv::int(0))));
                v
            };
            for (name, law) in STREAM_LAWS {
                let text = format!("{PRE}{}", law.replace('F', f));
                let prog = match jq::compile_full(&text, &["n"]) {
                    Ok(p) => p,
                    Err(e) => {
                        run.violation(&format!("law {name} does not compile for F={f}"), json!({"law": law, "error": e}));
                        continue;
                    }
                };
                let uses_n = law.contains("$n");
                for (nd, nv) in counts.iter().take(if uses_n { counts.len() } else { 1 }) {
                    let key = format!("{name}: F={f} n={nd}");
                    c.case(h64(&key), !ss[si].is_empty(), h64(&(name, ss[si].len(), ss[si].iter().position(|x| x.starts_with("error")))));
                    c.transitions += 1;
                    if let Err(why) = crate::ev::watched(|| key.clone(), false, || jq::law_holds(&prog, Val::Null, vec![nv.clone()])) {
                        run.violation(&key, json!({"law": law, "F": f, "n": nd, "why": why}));
                    }
                }
            }
            // reduce / foreach against the expansion generated for this concrete stream
            for (init, upd, proj) in [
                ("0", ". + $x", "."),
                ("0", "(. + $x, . * 2)", "[$x, .]"),
                ("0", "if $x == 2 then empty else . + $x end", "."),
                ("(0, 10)", ". + $x", "(., -.)"),
                ("0", "if $x == 2 then error(\"u\") else . + $x end", "."),
                ("empty", ". + $x", "."),
                ("[]", ". + [$x]", "length"),
            ] {
                let (r, rx, fe, fx) = fold_expansions(&ss[si], init, upd, proj);
                for (kind, l, rr) in [("reduce", &r, &rx), ("foreach", &fe, &fx)] {
                    let text = format!("{PRE}cap({l}) == cap({rr})");
                    let key = format!("{kind}-expansion: {l}");
                    c.case(h64(&key), true, h64(&(kind, init, upd)));
                    c.transitions += 1;
                    match jq::compile_full(&text, &[]) {
                        Ok(p) => {
                            if let Err(why) = jq::law_holds(&p, Val::Null, vec![]) {
                                run.violation(&key, json!({"law": text, "why": why}));
                            }
                        }
                        Err(e) => run.violation(&key, json!({"law": text, "error": e})),
                    }
                }
            }
            c
        })
        .reduce(Counts::default, Counts::merge);
    run.family("stream laws", json!({"streams": ss.len(), "renderings": 3, "laws": STREAM_LAWS.len(), "counts": counts_desc, "cases": c.evaluations}));
    run.add(c);
    run.bound_done(format!("all streams of length <= {maxlen} over {{1, 2, error}} x 3 renderings x {} counts x {} laws", counts_desc.len(), STREAM_LAWS.len()));

    // ---------------------------------------------------------- generator laws over argument triples
    let args: Vec<RVal> = {
        let mut v: Vec<RVal> = (if run.quick() { -1..=2 } else { -2..=3 }).map(rv::int).collect();
        v.extend([RVal::Float(0.5), rv::s(""), rv::s("a"), RVal::Arr(vec![]), RVal::Arr(vec![rv::int(1)]), RVal::Null]);
        v
    };
    let laws: Vec<(&str, &str, jq::F)> = GEN_LAWS.iter().map(|(n, l)| (*n, *l, jq::compile_full(&format!("{PRE}{l}"), &["a", "b", "c"]).unwrap_or_else(|e| panic!("{n}: {e}")))).collect();
    let na = args.len();
    let triples: Vec<(usize, usize, usize)> = (0..na).flat_map(|a| (0..na).flat_map(move |b| (0..na).map(move |c| (a, b, c)))).collect();
    let c = triples
        .par_iter()
        .map(|&(a, b, cc)| {
            let mut c = Counts::default();
            for (name, law, f) in &laws {
                let key = format!("{name}: a={} b={} c={}", args[a], args[b], args[cc]);
                c.case(h64(&key), true, h64(&(name, args[a].type_name(), args[b].type_name(), args[cc].type_name())));
                c.transitions += 1;
                let vars = vec![jq::to_val(&args[a]), jq::to_val(&args[b]), jq::to_val(&args[cc])];
                if let Err(why) = crate::ev::watched(|| key.clone(), false, || jq::law_holds(f, Val::Null, vars)) {
                    run.violation(&key, json!({"law": law, "a": args[a].to_string(), "b": args[b].to_string(), "c": args[cc].to_string(), "why": why}));
                }
            }
            c
        })
        .reduce(Counts::default, Counts::merge);
    run.family("generator laws", json!({"argument_values": args.len(), "triples": triples.len(), "laws": GEN_LAWS.len()}));
    run.add(c);
    run.bound_done(format!("all argument triples over {} values x {} generator laws", args.len(), GEN_LAWS.len()));

    // ---------------------------------------------------------- third opinion: the reference evaluator on the combinators themselves
    let consumers = ["limit(N; F)", "skip(N; F)", "first(F)", "last(F)", "nth(N; F)", "isempty(F)", "any(F; . == 2)", "all(F; . != 2)", "add(F)", "[limit(5; repeat(F))]", "reduce F as $x (0; . + $x)", "foreach F as $x (0; . + $x; [$x, .])", "[F] | length", "F // 9", "try F catch [.]", "label $l | F | ., break $l", "[limit(N; F)] + [skip(N; F)]"];
    let st = ss
        .par_iter()
        .fold(Stats::default, |mut st, s| {
            for f in renderings(s) {
                for c in consumers {
                    let ns: Vec<i64> = if c.contains('N') { (-1..=4).collect() } else { vec![0] };
                    for n in ns {
                        if c.contains("repeat") && s.is_empty() {
                            continue;
                        }
                        let text = c.replace('F', &f).replace('N', &format!("({n})"));
                        if let Some(t) = rt::parse_with_jaq(&text) {
                            check_program(&run, &mut st, "combinator-vs-model", &t, &[RVal::Null], &[], 24);
                        }
                    }
                }
            }
            st
        })
        .reduce(Stats::default, Stats::merge);
    run.family("combinators vs reference evaluator", st.json());
    run.add(st.c);
    run.sample(json!({"stream_renderings": renderings(&ss[ss.len() - 2])}));
    run.sample(json!({"stream_laws": STREAM_LAWS.iter().map(|(n, l)| format!("{n}: {l}")).collect::<Vec<_>>()}));
    run.sample(json!({"generator_laws": GEN_LAWS.iter().map(|(n, l)| format!("{n}: {l}")).collect::<Vec<_>>()}));
    run.sample(json!({"fold_expansion": fold_expansions(&["1", "2"], "0", "(. + $x, . * 2)", "[$x, .]")}));

    run.finish(
        "argument streams: every sequence of length <= 3 (thorough 4) over {1, 2, error(\"e\")}, each rendered as a literal comma list, as .[] over an array and as foreach outputs; counts n in -1..4 (thorough -2..6) plus 2^63, 2^70 and big-integer representations of 3 and 0; each equation of the manual is one law evaluated on every (stream, rendering, count), with outputs and the first error captured as data so that error position and payload are compared; reduce/foreach are compared with the nested-pipe expansion generated for the concrete stream for seven (init, update, projection) triples; generator laws (range/1,2,3 against their while definitions for numbers, strings, arrays; recurse/0,1,2; ..; while; until; repeat; empty; error) over all argument triples; the reference evaluator runs every combinator as a third opinion. non-trivial = non-empty stream",
        &["laws compare the implementation with the manual's defining expansion evaluated by the same binary", "limit with a non-integer count is not demanded"],
    )
}
