//! C10 — one position model per container (indexing, slicing, element updates).
use crate::c01::prelude;
use crate::ev::{h64, Counts, Run, Tier};
use crate::jq;
use crate::reval;
use crate::rterm as rt;
use crate::rval::{self as rv, RVal};
use crate::tracecmp::{compare, Verdict};
use jaq_all::json::Val;
use rayon::prelude::*;
use serde_json::json;
use std::collections::{HashMap, VecDeque};

/// (program, needs $i, needs $j)
const READS: &[&str] = &[
    ".[$i]",
    ".[$i]?",
    ".[$i:$j]",
    ".[$i:]",
    ".[:$j]",
    ".[$i:$j]?",
    ".[{start:$i,end:$j}]",
    ".[{start:$i}]",
    "has($i)",
    "length",
    "keys",
    "[.[]?]",
    ".[]",
    "first",
    "last",
    "nth($i)",
    ". as [$a,$b] | [$a,$b]",
    ". as {($i):$x} | [$x]",
    "[.[:$i], .[$i:]] | add",
    "path(.[$i])",
    "path(.[$i:$j])",
    "[path(.[]?)]",
    "try (.[$i] | true) catch \"E\"",
    "[.[$i,$j]?]",
];

const UPD_ELEM: &[&str] = &["empty", ".", "(., 5)", "99", "error(\"u\")", "[.]"];
const UPD_SLICE: &[&str] = &["empty", ".", ". + .", ".[:1]", "error(\"u\")", "(.[:1], .)", "7"];

fn update_programs() -> Vec<String> {
    let mut v = vec![];
    for u in UPD_ELEM {
        for lhs in [".[$i]", ".[$i]?", ".[]", ".[]?"] {
            v.push(format!("{lhs} |= {u}"));
        }
    }
    for u in UPD_SLICE {
        for lhs in [".[$i:$j]", ".[$i:$j]?", ".[$i:]", ".[:$j]", ".[{start:$i,end:$j}]"] {
            v.push(format!("{lhs} |= {u}"));
        }
    }
    for p in [".[$i] = 7", ".[$i]? = 7", ".[$i:$j] = [\"x\"]", ".[$i:$j] = \"x\"", "del(.[$i])", "del(.[$i:$j])", ".[$i] += 1", ".[$i] //= 3", ".[$i,$j]? |= 8", "to_entries", ".[$i][$j]? = 1"] {
        v.push(p.to_string());
    }
    v
}

fn containers(quick: bool) -> Vec<RVal> {
    let mut v = vec![RVal::Null, rv::int(5), RVal::Bool(true)];
    let elems = [10, 20, 30, 40];
    for n in 0..=4 {
        v.push(RVal::Arr(elems[..n].iter().map(|x| rv::int(*x)).collect()));
    }
    let alpha: [&[u8]; 5] = [b"a", "é".as_bytes(), "€".as_bytes(), "😀".as_bytes(), b"\xFF"];
    let maxlen = if quick { 3 } else { 4 };
    let mut strs: Vec<Vec<u8>> = vec![vec![]];
    let mut frontier: Vec<Vec<u8>> = vec![vec![]];
    for _ in 0..maxlen {
        let mut nf = vec![];
        for s in &frontier {
            for a in &alpha {
                let mut s2 = s.clone();
                s2.extend_from_slice(a);
                nf.push(s2);
            }
        }
        strs.extend(nf.iter().cloned());
        frontier = nf;
    }
    for s in &strs {
        v.push(RVal::Str(s.clone(), false));
    }
    for s in &strs {
        v.push(RVal::Str(s.clone(), true));
    }
    // objects with arbitrary values as keys
    let keys = vec![rv::s("a"), rv::int(0), rv::int(1), RVal::Null, RVal::Arr(vec![rv::int(1)]), rv::int(-1)];
    for o in crate::gen::trees(&[rv::int(10), rv::int(20)], &keys, 1, 2) {
        if let RVal::Obj(_) = o {
            v.push(o)
        }
    }
    v.push(RVal::Obj(vec![(rv::s("a"), rv::int(1)), (rv::int(0), rv::int(2)), (rv::s("c"), rv::int(3))]));
    v
}

#[derive(Clone)]
struct Pos {
    r: RVal,
    big: bool,
}
impl Pos {
    fn val(&self) -> Val {
        if self.big {
            jq::to_val_big(&self.r)
        } else {
            jq::to_val(&self.r)
        }
    }
    fn show(&self) -> String {
        format!("{}{}", self.r, if self.big { "(big)" } else { "" })
    }
}

fn positions(quick: bool) -> Vec<Pos> {
    let r = if quick { 4 } else { 6 };
    let mut v: Vec<Pos> = (-r..=r).map(|i| Pos { r: rv::int(i), big: false }).collect();
    v.push(Pos { r: RVal::Null, big: false });
    for i in [-5, -1, 0, 2, 5] {
        v.push(Pos { r: rv::int(i), big: true });
    }
    for odd in [RVal::Float(1.0), RVal::Float(1.5), rv::s("a"), RVal::Obj(vec![]), RVal::Obj(vec![(rv::s("start"), rv::int(1)), (rv::s("end"), rv::int(3))]), RVal::Arr(vec![rv::int(20)]), RVal::Bool(true)] {
        v.push(Pos { r: odd, big: false });
    }
    v
}

/// corners where the manual's text does not decide and the model follows neither side: not compared
fn undemanded(prog: &str, c: &RVal, i: &RVal, j: &RVal) -> bool {
    // slicing `null`, non-integer bounds under `?`
    let _ = (prog, c, i, j);
    false
}

fn needs(p: &str) -> (bool, bool) {
    (p.contains("$i"), p.contains("$j"))
}

pub fn main(tier: Tier) -> ! {
    jq::quiet_panics();
    let run = Run::new("C10", "model_checking", tier);
    let conts = containers(run.quick());
    let poss = positions(run.quick());
    let mut programs: Vec<String> = READS.iter().map(|s| s.to_string()).collect();
    programs.extend(update_programs());
    eprintln!("[C10] {} containers, {} positions, {} programs", conts.len(), poss.len(), programs.len());

    let compiled: Vec<(String, rt::T, jq::F)> = programs
        .iter()
        .map(|p| {
            let t = rt::parse_with_jaq(p).unwrap_or_else(|| panic!("parse {p}"));
            let f = jq::compile(p, &["i", "j"]).unwrap_or_else(|e| panic!("compile {p}: {e}"));
            (p.clone(), t, f)
        })
        .collect();

    let null = Pos { r: RVal::Null, big: false };
    let stats = conts
        .par_iter()
        .map(|c| {
            let mut cnt = Counts::default();
            let mut partial = 0u64;
            let env0 = prelude();
            for (p, t, f) in &compiled {
                let (ni, nj) = needs(p);
                let is: Vec<&Pos> = if ni { poss.iter().collect() } else { vec![&null] };
                let js: Vec<&Pos> = if nj { poss.iter().collect() } else { vec![&null] };
                for i in &is {
                    for j in &js {
                        if undemanded(p, c, &i.r, &j.r) {
                            continue;
                        }
                        let env = env0.with_var("$i", i.r.clone()).with_var("$j", j.r.clone());
                        let m = reval::run_model(t, &env, c, vec![], 12, 20_000);
                        let imp = jq::run_trace(f, jq::to_val(c), vec![i.val(), j.val()], vec![], 12);
                        let key = format!("{p} @ {c} with $i={} $j={}", i.show(), j.show());
                        let nontrivial = m.trace.iter().any(|e| matches!(e, jq::Ev::Out(v) if !matches!(v, RVal::Null)));
                        cnt.case(h64(&key), nontrivial, h64(&jq::trace_json(&m.trace).to_string()));
                        cnt.transitions += m.trace.len() as u64;
                        match compare(&m, &imp) {
                            Verdict::Same | Verdict::Undecided => {}
                            Verdict::Partial => partial += 1,
                            Verdict::Differ(why) => run.violation(
                                &key,
                                json!({"program": p, "input": c.to_string(), "i": i.show(), "j": j.show(), "why": why, "model_trace": jq::trace_json(&m.trace), "impl_trace": jq::trace_json(&imp)}),
                            ),
                        }
                    }
                }
            }
            (cnt, partial)
        })
        .reduce(|| (Counts::default(), 0), |a, b| (a.0.merge(b.0), a.1 + b.1));
    run.family("reads+updates", json!({"containers": conts.len(), "positions": poss.len(), "programs": programs.len(), "cases": stats.0.evaluations, "partially_compared": stats.1}));
    run.add(stats.0);
    run.bound_done(format!("{} containers x {} positions^2 x {} programs", conts.len(), poss.len(), programs.len()));

    // ---------------------------------------------------------- kind S: chained updates (BFS over operation sequences)
    let ops: Vec<&str> = vec![
        ".[0] = 9", ".[-1] |= empty", ".[1:2] = [7,8]", "del(.[0])", ".[] |= .", ".[1] |= (.,.)", ".[:1] |= empty", ".[-2:] |= .[:1]", ". + [5]",
        ".a = 1", "del(.a)", ".[0] |= empty", ".b |= empty", ".[]? |= empty", ".[1:] = \"z\"", ".[:1] |= . + .", ".[\"a\"]? = [1]", ".a[0]? = 2", "to_entries | from_entries", "with_entries(.)",
    ];
    let cops: Vec<(String, rt::T, jq::F)> = ops.iter().map(|p| (p.to_string(), rt::parse_with_jaq(p).unwrap(), jq::compile(p, &[]).unwrap())).collect();
    let depth = if run.quick() { 3 } else { 4 };
    let mut seen: HashMap<String, usize> = HashMap::new();
    let mut q: VecDeque<(RVal, usize)> = VecDeque::new();
    let mut init: Vec<RVal> = vec![RVal::Null];
    for n in 0..=3 {
        init.push(RVal::Arr([10, 20, 30][..n].iter().map(|x| rv::int(*x)).collect()));
    }
    init.push(rv::s(""));
    init.push(rv::s("aé"));
    init.push(rv::s("é€😀"));
    init.push(RVal::Obj(vec![]));
    init.push(RVal::Obj(vec![(rv::s("a"), rv::int(1))]));
    init.push(RVal::Obj(vec![(rv::s("a"), rv::int(1)), (rv::s("b"), rv::int(2))]));
    init.push(RVal::Obj(vec![(rv::s("b"), RVal::Arr(vec![rv::int(1)])), (rv::s("a"), RVal::Arr(vec![]))]));
    for s in init {
        seen.insert(s.to_string(), 0);
        q.push_back((s, 0));
    }
    let env0 = prelude();
    let mut c = Counts::default();
    let mut transitions = 0u64;
    while let Some((s, d)) = q.pop_front() {
        c.states.insert(h64(&s.to_string()));
        if d >= depth {
            continue;
        }
        for (p, t, f) in &cops {
            let m = reval::run_model(t, &env0, &s, vec![], 4, 20_000);
            let imp = jq::run_trace(f, jq::to_val(&s), vec![], vec![], 4);
            transitions += 1;
            let key = format!("chain: {p} @ {s} (depth {d})");
            c.case(h64(&key), d > 0, h64(&jq::trace_json(&m.trace).to_string()));
            match compare(&m, &imp) {
                Verdict::Differ(why) => run.violation(&key, json!({"op": p, "state": s.to_string(), "depth": d, "why": why, "model_trace": jq::trace_json(&m.trace), "impl_trace": jq::trace_json(&imp)})),
                _ => {}
            }
            // successor states are taken from the implementation (the real transition function)
            for e in &imp {
                if let jq::Ev::Out(v) = e {
                    let k = v.to_string();
                    if !seen.contains_key(&k) && k.len() < 200 {
                        seen.insert(k, d + 1);
                        q.push_back((v.clone(), d + 1));
                    }
                }
            }
        }
    }
    c.transitions = transitions;
    run.family("chained updates (BFS)", json!({"operations": ops.len(), "depth": depth, "states": c.states.len(), "transitions": transitions}));
    run.bound_done(format!("BFS over {} update operations to depth {depth} from {} initial containers", ops.len(), 11));
    run.add(c);
    run.sample(json!({"program": ".[$i:$j] |= .[:1]", "input": "\"a€😀\"", "i": -2, "j": null}));
    run.sample(json!({"reads": READS, "element_updates": UPD_ELEM, "slice_updates": UPD_SLICE}));
    run.sample(json!({"chain_ops": ops}));

    run.finish(
        "every container (arrays of length 0..4, all text and byte strings up to length 3/4 over {a, e-acute, euro, emoji, lone invalid byte}, null, scalars, objects with arbitrary keys) x every pair of positions (integers -4..4/-6..6, null, the same integers stored as big integers, float/string/object/array/boolean indices) x every read and update program is run on the reference evaluator (list / character-sequence model, update rules of advanced.dj#pathless) and on the implementation; traces must be equal. Kind S: breadth-first search over chained update operations from every small container, canonical-text state dedup, model and implementation compared at every transition. non-trivial = some non-null output / non-initial state",
        &["after an update that deletes an object entry, objects are compared up to key order", "for invalid UTF-8 only lone invalid bytes are in the alphabet", "model follows the implementation where the manual is silent: slice update yielding a non-array is an error; `.[] |= empty` on objects deletes"],
    )
}
