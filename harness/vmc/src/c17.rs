//! C17 — the command line prints each output once, in order, and reports the true outcome.
//! An executable model of the command line is compared with the real binary (py/c17_cli.py).
use crate::ev::{Run, Tier};
use crate::ext;

pub fn main(tier: Tier) -> ! {
    let run = Run::new("C17", "model_checking", tier);
    let c = ext::run_python(&run, "c17_cli.py", &[]);
    run.add(c);
    run.finish(
        "a model of the command line written from docs/cli.dj (per file: one shared iterator of input values consumed by the main loop and by input/inputs; --null-input, --slurp, --raw-input, --raw-input0, --from; output terminators and quoting for -r, -j, -c, -S, --tab, --indent, --raw-output0, --to; --exit-status; halt, halt_error, error; stop at the first error after flushing earlier outputs; exit status table) is evaluated for every configuration of a bounded product: 23 filters (with their semantics written in Python) x 9 input option sets x 9 stream layouts (stdin or 1..3 files, empty files, a file broken after k values) and 10 filters x 18 output option sets x --exit-status x 2 layouts, plus 68 direct cases for the variable options (--arg, --argjson, --slurpfile, --rawfile, --args, $ENV, -f), option parsing and every exit status. stdout must be byte-equal to the model's and the exit status equal. non-trivial = every configuration (each runs the binary)",
        &["values are restricted to integers, strings, null, booleans, arrays and objects so that an independent JSON printer (Python) applies", "error messages on stderr are only required to be non-empty; halt_error output is compared exactly", "an invalid --argjson value is reported with status 5 (the manual does not fix its status)"],
    )
}
