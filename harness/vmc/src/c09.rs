//! C09 — exact integer arithmetic; operators follow the manual's rules.
use crate::c08::{values, TV};
use crate::ev::{h64, Counts, Run, Tier};
use crate::jq;
use crate::rval::{self as rv, RVal};
use jaq_all::json::Val;
use rayon::prelude::*;
use serde_json::json;

const ERR: &str = "§E§";
const OPS_PROG: &str = "[try ($a + $b) catch \"§E§\", try ($a - $b) catch \"§E§\", try ($a * $b) catch \"§E§\", try ($a / $b) catch \"§E§\", try ($a % $b) catch \"§E§\", try (-$a) catch \"§E§\"]";

const OPS_PROG_NOMUL: &str = "[try ($a + $b) catch \"§E§\", try ($a - $b) catch \"§E§\", null, try ($a / $b) catch \"§E§\", try ($a % $b) catch \"§E§\", try (-$a) catch \"§E§\"]";

fn model_ops(a: &RVal, b: &RVal) -> Vec<rv::R> {
    vec![rv::add(a, b), rv::sub(a, b), rv::mul(a, b), rv::div(a, b), rv::rem(a, b), rv::neg(a)]
}

/// by-rule exclusions: resource-bound repetitions, text/byte mixtures (manual silent), float remainders
/// whose operands are not exactly representable
fn excluded(op: usize, a: &RVal, b: &RVal) -> bool {
    use RVal::*;
    let huge = |v: &RVal| matches!(v, Int(i) if num_traits::Signed::abs(i) > num_bigint::BigInt::from(1000));
    match (op, a, b) {
        (2, Str(..), n) | (2, n, Str(..)) if huge(n) => true,
        (0 | 3, Str(_, p), Str(_, q)) if p != q => true,
        _ => false,
    }
}

fn same_result(m: &rv::R, got: &RVal) -> bool {
    match m {
        Err(()) => matches!(got, RVal::Str(s, false) if s == ERR.as_bytes()),
        Ok(v) => rv::same(v, got) || matches!((v, got), (RVal::Float(x), RVal::Float(y)) if x.is_nan() && y.is_nan()),
    }
}

/// integer-consuming built-ins: `$n` is given once as a machine integer and once as `n + 2^70 - 2^70`
const CONSUMERS: &[&str] = &[
    "[10,20,30,40] | .[$n]",
    "[10,20,30,40] | .[$n:]",
    "[10,20,30,40] | .[:$n]",
    "[10,20,30,40] | .[1:$n]",
    "\"a€😀b\" | .[$n:]",
    "\"a€😀b\" | .[:$n]",
    "(\"abcd\"|tobytes) | .[$n]",
    "(\"abcd\"|tobytes) | .[$n:]",
    "[limit($n; 1,2,3,4)]",
    "[skip($n; 1,2,3,4)]",
    "[nth($n; 1,2,3,4)]",
    "[10,20,30] | nth($n)",
    "[range($n)]",
    "[range(1; $n)]",
    "[range(0; $n; 2)]",
    "[limit(5; range($n; 4; 1))]",
    "[limit(5; range(0; 9; $n))]",
    "\"ab\" * $n",
    "$n * \"ab\"",
    "[$n, 65] | tobytes",
    "[65, $n + 60] | implode",
    "1.5 | ldexp(.; $n)",
    "1.5 | scalbln(.; $n)",
    "[1,[2,[3,[4]]]] | flatten($n)",
    "[1,2] | [combinations($n)] | length",
    "[10,20,30] | has($n)",
    "[10,20,30] | getpath([$n])",
    "[1,2,3,4] | bsearch($n)",
    "{($n): 1} | keys",
    "{($n): 1, \"x\": 2} | .[$n]",
    "{(3): 1} | has($n)",
    "$n | todate",
    "$n | gmtime",
    "[10,20,30,40] | .[$n] = 0",
    "[10,20,30,40] | .[$n:] = [0]",
    "[10,20,30,40] | del(.[$n])",
    "[10,20,30,40] | to_entries | .[$n].key",
    "[10,20,30,40] as [$a,$b] | {($n): $a} as {($n): $c} | $c",
    "$n < 3, $n == 3, $n > 3, ([$n] | index(3))",
    "[3, $n] | unique | length",
    "[0,1,2,3,4,5,6] - [$n]",
    "$n | tostring, tojson, @text, @json",
    "\"x\" | ltrimstr(\"x\") | length + $n",
    "[splits(\"a\"; \"g\")] | length + $n | . * 1",
    "$n % 4, 7 % ($n|if . == 0 then 1 else . end), -$n, ($n | abs), ($n|length)",
    "$n + 1, $n * 3, $n - 7, $n / 2",
    "[1,2,3] | first(.[$n:][])",
    "\"abc\" | .[$n:$n+1]",
    "[.[]?] | length + $n",
    "$n | floor, round, ceil, sqrt",
    "[\"a\",\"b\"] | join($n|tostring)",
    "$n | tojson | fromjson",
    "[$n] | sort_by(.) | .[0] == $n",
    "[[$n, 1], [$n, 0]] | sort | .[0][1], (group_by(.[0]) | length), (min_by(.[0]) | .[1])",
];

pub fn main(tier: Tier) -> ! {
    jq::quiet_panics();
    let run = Run::new("C09", "model_checking", tier);
    let vals: Vec<TV> = values(run.quick());
    let n = vals.len();
    let f = jq::compile(OPS_PROG, &["a", "b"]).expect("ops program");
    let f_nomul = jq::compile(OPS_PROG_NOMUL, &["a", "b"]).expect("ops program");
    let names = ["+", "-", "*", "/", "%", "neg"];
    let idx: Vec<usize> = (0..n).collect();
    let counts = idx
        .par_chunks(8)
        .map(|chunk| {
            let mut c = Counts::default();
            let v: Vec<Val> = vals.iter().map(|t| t.val()).collect();
            for &i in chunk {
                for j in 0..n {
                    let (a, b) = (&vals[i], &vals[j]);
                    let exp = model_ops(&a.r, &b.r);
                    let key = format!("ops: a={} b={}", a.show(), b.show());
                    let got = jq::run_vals(if excluded(2, &a.r, &b.r) { &f_nomul } else { &f }, Val::Null, vec![v[i].clone(), v[j].clone()], 2);
                    let gotv: Vec<RVal> = match &got {
                        Ok(outs) if outs.len() == 1 => match &outs[0] {
                            Ok(Val::Arr(a)) => a.iter().map(jq::to_rval).collect(),
                            _ => vec![],
                        },
                        _ => vec![],
                    };
                    let both_int = a.r.is_int() && b.r.is_int();
                    c.case(h64(&key), both_int || exp.iter().any(|r| r.is_ok()), h64(&format!("{:?}", exp.iter().map(|r| r.as_ref().map(|v| v.to_string())).collect::<Vec<_>>())));
                    c.transitions += 6;
                    if gotv.len() != 6 {
                        run.violation(&key, json!({"a": a.show(), "b": b.show(), "what": "arithmetic program did not yield one array of six results", "got": format!("{:?}", got.map(|o| o.iter().map(|x| x.as_ref().map(|v| v.to_string()).map_err(|e| format!("{e:?}"))).collect::<Vec<_>>()))}));
                        continue;
                    }
                    for op in 0..6 {
                        if excluded(op, &a.r, &b.r) {
                            continue;
                        }
                        if !same_result(&exp[op], &gotv[op]) {
                            run.violation(
                                &format!("op {}: a={} b={}", names[op], a.show(), b.show()),
                                json!({"a": a.show(), "b": b.show(), "op": names[op], "model": exp[op].as_ref().map(|v| v.to_string()).unwrap_or_else(|_| "error".to_string()), "implementation": gotv[op].to_string(),
                                       "oracle": "exact integers / IEEE double of the converted operands / manual's non-numeric rules"}),
                            );
                        }
                    }
                }
            }
            c
        })
        .reduce(Counts::default, Counts::merge);
    run.family("operator pairs", json!({"values": n, "pairs": counts.evaluations}));
    run.add(counts);
    run.bound_done(format!("all ordered pairs over {n} values x 6 operators"));

    // representation independence
    let big = num_bigint::BigInt::from(1u64 << 35) * num_bigint::BigInt::from(1u64 << 35);
    let mut c = Counts::default();
    let lo = if run.quick() { -3 } else { -6 };
    let hi = if run.quick() { 6 } else { 12 };
    for prog in CONSUMERS {
        let f = match jq::compile_full(prog, &["n"]) {
            Ok(f) => f,
            Err(e) => {
                eprintln!("consumer does not compile (skipped): {prog}: {e}");
                continue;
            }
        };
        for nn in lo..=hi {
            let small = Val::from(nn as isize);
            // n + 2^70 - 2^70, computed by jaq itself: a big-integer representation of a small value
            let bigv = {
                let b = Val::Num(jaq_all::json::Num::big_int(big.clone()));
                ((small.clone() + b.clone()).unwrap() - b).unwrap()
            };
            assert!(jq::is_bigint_repr(&bigv), "n + 2^70 - 2^70 is expected to be stored as a big integer");
            let t1 = jq::run_trace(&f, Val::Null, vec![small], vec![], 32);
            let t2 = jq::run_trace(&f, Val::Null, vec![bigv], vec![], 32);
            let s1 = jq::trace_json(&t1).to_string();
            let s2 = jq::trace_json(&t2).to_string();
            let key = format!("repr: {prog} with $n={nn}");
            c.case(h64(&key), true, h64(&s1));
            c.transitions += t1.len() as u64;
            // error messages may print the value, which is identical; compare complete traces
            if s1 != s2 || t1.iter().any(|e| matches!(e, jq::Ev::Panic(_))) {
                run.violation(&key, json!({"program": prog, "n": nn, "machine_integer": jq::trace_json(&t1), "big_integer_representation": jq::trace_json(&t2)}));
            }
            if nn == 2 && run.n_samples() < 12 {
                run.sample(json!({"program": prog, "n": nn, "trace": jq::trace_json(&t1)}));
            }
        }
    }
    run.family("representation independence", json!({"programs": CONSUMERS.len(), "n_range": [lo, hi], "cases": c.evaluations}));
    run.add(c);
    run.bound_done(format!("{} integer-consuming programs x n in {lo}..{hi} x two representations", CONSUMERS.len()));
    run.sample(json!({"program": OPS_PROG, "a": vals[5].show(), "b": vals[40].show()}));

    run.finish(
        "all ordered pairs over the value set V8 (see C08) are evaluated with + - * / % and unary - and compared bit for bit with an arbitrary-precision / IEEE model written from the manual; every integer-consuming built-in is run with n as a machine integer and as n + 2^70 - 2^70 and must produce identical traces. non-trivial = at least one operator defined on the pair; distinct = distinct (a, b) / (program, n)",
        &["string repetition by counts > 1000 is excluded (resource bound)", "text + byte string mixtures are excluded (manual silent)"],
    )
}
