//! C06 — filters and data cannot make jaq touch files, network or other processes.
//! Observation at the system-call boundary (py/c06_syscalls.py + tools/sysmon.c).
use crate::ev::{Run, Tier};
use crate::ext;

pub fn main(tier: Tier) -> ! {
    let run = Run::new("C06", "exploration", tier);
    let c = ext::run_python(&run, "c06_syscalls.py", &[]);
    run.add(c);
    run.finish(
        "every run of the real binary is traced with ptrace; every system call that names a path, changes the file system, opens a socket or creates a process is judged: allowed are the calls of a trivial run (start-up: loader, /proc/self/maps, ...), read-only opens of the input files named on the command line and of the module/data files named by import directives or --slurpfile/--rawfile, read-only look-ups below the time-zone database, and writes to stdout/stderr; everything else is a violation, and the scratch directory with its canary file must be unchanged afterwards. Runs: every native filter and definition discovered from the tree (arity 0..3, in value, path and update position, batched per process, each application isolated by try/first) applied to canary paths, URLs and shell-command strings as input and arguments; adversarial documents for every decoder (YAML tags, aliases and includes; XML DOCTYPE, external entities, XInclude, processing instructions; CBOR tags; TOML; CSV formulas) as input files, through every writer, and through the from* filters; module, data, --slurpfile and --rawfile loading. transitions = system calls judged. non-trivial = every monitored run",
        &["exhaustive over the filters of the tree and the listed canaries/documents, not over all arguments", "x86_64 Linux; TZ=UTC", "interactive repl and --in-place are the documented exceptions and are not run here (C18 covers --in-place)"],
    )
}
