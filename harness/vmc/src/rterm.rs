//! Reference term (E1): own AST mirroring the surface syntax, conversion from
//! jaq's public parse tree (used by C15 and to import manual examples), and an
//! independent printer (never calls jaq's lexer or parser).
use jaq_all::jaq_core::load::lex::StrPart;
use jaq_all::jaq_core::load::parse as jp;
use jaq_all::jaq_core::ops::{Cmp, Math};
use jaq_all::jaq_core::path::{Opt, Part as JPart};

#[derive(Clone, Debug, PartialEq, Eq, Hash)]
pub enum Op {
    Pipe,
    Comma,
    Assign,
    Update,
    UpdateMath(char),
    UpdateAlt,
    Alt,
    Or,
    And,
    Cmp(&'static str),
    Math(char),
}

#[derive(Clone, Debug, PartialEq, Eq, Hash)]
pub enum SP {
    S(String),
    I(T),
}

#[derive(Clone, Debug, PartialEq, Eq, Hash)]
pub enum Pat {
    Var(String),
    Arr(Vec<Pat>),
    /// key term, pattern. `{$x}` is `(Str "x", Var "$x")` exactly as jaq's parser produces it.
    Obj(Vec<(T, Pat)>),
}

#[derive(Clone, Debug, PartialEq, Eq, Hash)]
pub enum Part {
    Index(T),
    Range(Option<T>, Option<T>),
}

#[derive(Clone, Debug, PartialEq, Eq, Hash)]
pub struct DefD {
    pub name: String,
    pub args: Vec<String>,
    pub body: T,
}

#[derive(Clone, Debug, PartialEq, Eq, Hash)]
pub enum T {
    Id,
    Recurse,
    Num(String),
    Str(Option<String>, Vec<SP>),
    Arr(Option<Box<T>>),
    Obj(Vec<(T, Option<T>)>),
    Neg(Box<T>),
    Bin(Box<T>, Op, Box<T>),
    /// `f as pat | g`
    As(Box<T>, Pat, Box<T>),
    Label(String, Box<T>),
    Break(String),
    /// "reduce" | "foreach", source, pattern, args
    Fold(String, Box<T>, Pat, Vec<T>),
    Try(Box<T>, Option<Box<T>>),
    If(Vec<(T, T)>, Option<Box<T>>),
    Def(Vec<DefD>, Box<T>),
    Call(String, Vec<T>),
    Var(String),
    Path(Box<T>, Vec<(Part, bool)>),
}

// ------------------------------------------------------------------ constructors

pub fn b(t: T) -> Box<T> {
    Box::new(t)
}
pub fn num(n: i64) -> T {
    if n < 0 {
        T::Neg(b(T::Num((-n).to_string())))
    } else {
        T::Num(n.to_string())
    }
}
pub fn strlit(s: &str) -> T {
    T::Str(None, if s.is_empty() { vec![] } else { vec![SP::S(s.into())] })
}
pub fn call0(n: &str) -> T {
    T::Call(n.into(), vec![])
}
pub fn call(n: &str, a: Vec<T>) -> T {
    T::Call(n.into(), a)
}
pub fn var(n: &str) -> T {
    T::Var(n.into())
}
pub fn bin(l: T, op: Op, r: T) -> T {
    T::Bin(b(l), op, b(r))
}
pub fn pipe(l: T, r: T) -> T {
    bin(l, Op::Pipe, r)
}
pub fn comma(l: T, r: T) -> T {
    bin(l, Op::Comma, r)
}
pub fn as_(l: T, p: Pat, r: T) -> T {
    T::As(b(l), p, b(r))
}
pub fn arr(t: T) -> T {
    T::Arr(Some(b(t)))
}
pub fn idx(head: T, i: T) -> T {
    T::Path(b(head), vec![(Part::Index(i), false)])
}
pub fn iter(head: T) -> T {
    T::Path(b(head), vec![(Part::Range(None, None), false)])
}
pub fn tick(n: i64) -> T {
    call("tick", vec![T::Num(n.to_string())])
}

// ------------------------------------------------------------------ conversion from jaq's parse tree

fn conv_parts(parts: &[StrPart<&str, jp::Term<&str>>]) -> Vec<SP> {
    let mut out: Vec<SP> = Vec::new();
    let push = |out: &mut Vec<SP>, s: &str| match out.last_mut() {
        Some(SP::S(p)) => p.push_str(s),
        _ => out.push(SP::S(s.to_string())),
    };
    for p in parts {
        match p {
            StrPart::Str(s) => push(&mut out, s),
            StrPart::Char(c) => push(&mut out, &c.to_string()),
            StrPart::Term(t) => out.push(SP::I(conv(t))),
        }
    }
    out
}

fn math_c(m: &Math) -> char {
    match m {
        Math::Add => '+',
        Math::Sub => '-',
        Math::Mul => '*',
        Math::Div => '/',
        Math::Rem => '%',
    }
}

pub fn conv_pat(p: &jp::Pattern<&str>) -> Pat {
    match p {
        jp::Pattern::Var(x) => Pat::Var(x.to_string()),
        jp::Pattern::Arr(a) => Pat::Arr(a.iter().map(conv_pat).collect()),
        jp::Pattern::Obj(o) => Pat::Obj(o.iter().map(|(k, p)| (conv(k), conv_pat(p))).collect()),
    }
}

pub fn conv_def(d: &jp::Def<&str>) -> DefD {
    DefD { name: d.name.to_string(), args: d.args.iter().map(|a| a.to_string()).collect(), body: conv(&d.body) }
}

pub fn conv(t: &jp::Term<&str>) -> T {
    use jp::Term as J;
    match t {
        J::Id => T::Id,
        J::Recurse => T::Recurse,
        J::Num(n) => T::Num(n.to_string()),
        J::Str(f, parts) => T::Str(f.map(|f| f.to_string()), conv_parts(parts)),
        J::Arr(a) => T::Arr(a.as_ref().map(|a| b(conv(a)))),
        J::Obj(o) => T::Obj(o.iter().map(|(k, v)| (conv(k), v.as_ref().map(conv))).collect()),
        J::Neg(f) => T::Neg(b(conv(f))),
        J::BinOp(l, op, r) => {
            let (l, r) = (conv(l), conv(r));
            use jp::BinaryOp as B;
            let op = match op {
                B::Pipe(None) => Op::Pipe,
                B::Pipe(Some(p)) => return T::As(b(l), conv_pat(p), b(r)),
                B::Comma => Op::Comma,
                B::Alt => Op::Alt,
                B::Or => Op::Or,
                B::And => Op::And,
                B::Math(m) => Op::Math(math_c(m)),
                B::Cmp(c) => Op::Cmp(match c {
                    Cmp::Lt => "<",
                    Cmp::Le => "<=",
                    Cmp::Gt => ">",
                    Cmp::Ge => ">=",
                    Cmp::Eq => "==",
                    Cmp::Ne => "!=",
                }),
                B::Assign => Op::Assign,
                B::Update => Op::Update,
                B::UpdateMath(m) => Op::UpdateMath(math_c(m)),
                B::UpdateAlt => Op::UpdateAlt,
            };
            T::Bin(b(l), op, b(r))
        }
        J::Label(x, f) => T::Label(x.to_string(), b(conv(f))),
        J::Break(x) => T::Break(x.to_string()),
        J::Fold(name, xs, pat, args) => T::Fold(name.to_string(), b(conv(xs)), conv_pat(pat), args.iter().map(conv).collect()),
        J::TryCatch(f, c) => T::Try(b(conv(f)), c.as_ref().map(|c| b(conv(c)))),
        J::IfThenElse(its, e) => T::If(its.iter().map(|(i, t)| (conv(i), conv(t))).collect(), e.as_ref().map(|e| b(conv(e)))),
        J::Def(defs, f) => T::Def(defs.iter().map(conv_def).collect(), b(conv(f))),
        J::Call(n, args) => T::Call(n.to_string(), args.iter().map(conv).collect()),
        J::Var(x) => T::Var(x.to_string()),
        J::Path(head, path) => T::Path(
            b(conv(head)),
            path.0
                .iter()
                .map(|(p, o)| {
                    let p = match p {
                        JPart::Index(i) => Part::Index(conv(i)),
                        JPart::Range(x, y) => Part::Range(x.as_ref().map(conv), y.as_ref().map(conv)),
                    };
                    (p, matches!(o, Opt::Optional))
                })
                .collect(),
        ),
    }
}

/// Parse with jaq's parser and convert (only for importing manual examples / C15 comparisons).
pub fn parse_with_jaq(code: &str) -> Option<T> {
    jaq_all::jaq_core::load::parse(code, |p| p.term()).map(|t| conv(&t))
}

pub fn parse_defs_with_jaq(code: &str) -> Option<Vec<DefD>> {
    jaq_all::jaq_core::load::parse(code, |p| p.defs()).map(|ds| ds.iter().map(conv_def).collect())
}

// ------------------------------------------------------------------ printer

/// precedence and right-associativity as tabulated in the manual
pub fn prec(op: &Op) -> (u8, bool) {
    match op {
        Op::Pipe => (0, true),
        Op::Comma => (1, false),
        // `as` = 2
        Op::Assign | Op::Update | Op::UpdateMath(_) | Op::UpdateAlt => (3, true),
        Op::Alt => (4, false),
        Op::Or => (5, false),
        Op::And => (6, false),
        Op::Cmp("==") | Op::Cmp("!=") => (7, false),
        Op::Cmp(_) => (8, false),
        Op::Math('+') | Op::Math('-') => (9, false),
        Op::Math('*') | Op::Math('/') => (10, false),
        Op::Math(_) => (11, false),
    }
}

pub fn op_str(op: &Op) -> String {
    match op {
        Op::Pipe => "|".into(),
        Op::Comma => ",".into(),
        Op::Assign => "=".into(),
        Op::Update => "|=".into(),
        Op::UpdateMath(c) => format!("{c}="),
        Op::UpdateAlt => "//=".into(),
        Op::Alt => "//".into(),
        Op::Or => "or".into(),
        Op::And => "and".into(),
        Op::Cmp(s) => s.to_string(),
        Op::Math(c) => c.to_string(),
    }
}

fn ident_like(s: &str) -> bool {
    let mut c = s.chars();
    matches!(c.next(), Some(x) if x.is_ascii_alphabetic() || x == '_') && c.all(|x| x.is_ascii_alphanumeric() || x == '_')
}

pub fn esc_str(s: &str, out: &mut String) {
    for c in s.chars() {
        match c {
            '"' => out.push_str("\\\""),
            '\\' => out.push_str("\\\\"),
            '\n' => out.push_str("\\n"),
            '\t' => out.push_str("\\t"),
            '\r' => out.push_str("\\r"),
            c if (c as u32) < 0x20 || c as u32 == 0x7f => out.push_str(&format!("\\u{:04x}", c as u32)),
            c => out.push(c),
        }
    }
}

#[derive(Clone, Copy, PartialEq)]
pub enum Style {
    /// only the parentheses the precedence table requires
    Minimal,
    /// every operand of every operator parenthesised
    Full,
}

pub struct Printer {
    pub style: Style,
    /// separator placed between tokens
    pub sep: &'static str,
}

impl Default for Printer {
    fn default() -> Self {
        Printer { style: Style::Minimal, sep: " " }
    }
}

/// does the term, printed without surrounding parentheses, extend arbitrarily far to the right?
fn open_right(t: &T) -> bool {
    match t {
        T::As(..) | T::Def(..) | T::Label(..) => true,
        T::Bin(_, _, r) => open_right(r),
        T::Neg(f) => open_right(f),
        T::Try(f, None) => open_right(f),
        T::Try(_, Some(c)) => open_right(c),
        _ => false,
    }
}

fn is_binlike(t: &T) -> bool {
    matches!(t, T::Bin(..) | T::As(..))
}

impl Printer {
    pub fn print(&self, t: &T) -> String {
        let mut s = String::new();
        self.term(t, &mut s);
        s
    }

    fn paren(&self, t: &T, out: &mut String) {
        out.push('(');
        self.term(t, out);
        out.push(')');
    }

    /// print as an *atom* (operand of `-`, `try`, `reduce` source, path head)
    fn atom(&self, t: &T, out: &mut String) {
        if is_binlike(t) || matches!(t, T::Def(..) | T::Label(..)) || (self.style == Style::Full && !matches!(t, T::Id | T::Num(_) | T::Var(_) | T::Call(_, _))) {
            self.paren(t, out)
        } else {
            self.term(t, out)
        }
    }

    fn operand(&self, t: &T, p: u8, right_assoc: bool, is_left: bool, out: &mut String) {
        let need = if self.style == Style::Full {
            !matches!(t, T::Id | T::Num(_) | T::Var(_)) || is_binlike(t)
        } else {
            let cp = match t {
                T::Bin(_, op, _) => Some(prec(op).0),
                T::As(..) => Some(2),
                _ => None,
            };
            let by_prec = match cp {
                None => false,
                Some(cp) => {
                    if is_left {
                        if right_assoc { cp <= p } else { cp < p }
                    } else if right_assoc {
                        cp < p
                    } else {
                        cp <= p
                    }
                }
            };
            // the body of `as`/`def`/`label` swallows everything to its right
            by_prec || (is_left && open_right(t)) || (!is_left && matches!(t, T::As(..)) && p >= 2)
        };
        if need {
            self.paren(t, out)
        } else {
            self.term(t, out)
        }
    }

    fn pat(&self, p: &Pat, out: &mut String) {
        match p {
            Pat::Var(x) => out.push_str(x),
            Pat::Arr(a) => {
                out.push('[');
                for (i, p) in a.iter().enumerate() {
                    if i > 0 {
                        out.push(',');
                    }
                    self.pat(p, out);
                }
                out.push(']');
            }
            Pat::Obj(o) => {
                out.push('{');
                for (i, (k, p)) in o.iter().enumerate() {
                    if i > 0 {
                        out.push(',');
                    }
                    match (k, p) {
                        (T::Str(None, parts), Pat::Var(x)) if matches!(&parts[..], [SP::S(s)] if format!("${s}") == *x) => out.push_str(x),
                        _ => {
                            self.key(k, out);
                            out.push(':');
                            self.pat(p, out);
                        }
                    }
                }
                out.push('}');
            }
        }
    }

    fn key(&self, k: &T, out: &mut String) {
        match k {
            T::Str(..) => self.term(k, out),
            _ => self.paren(k, out),
        }
    }

    fn strlit(&self, fmt: &Option<String>, parts: &[SP], out: &mut String) {
        if let Some(f) = fmt {
            out.push_str(f);
            out.push_str(self.sep);
        }
        out.push('"');
        for p in parts {
            match p {
                SP::S(s) => esc_str(s, out),
                SP::I(t) => {
                    out.push_str("\\(");
                    self.term(t, out);
                    out.push(')');
                }
            }
        }
        out.push('"');
    }

    fn defs(&self, ds: &[DefD], out: &mut String) {
        for d in ds {
            out.push_str("def ");
            out.push_str(&d.name);
            if !d.args.is_empty() {
                out.push('(');
                out.push_str(&d.args.join(";"));
                out.push(')');
            }
            out.push_str(": ");
            self.term(&d.body, out);
            out.push_str("; ");
        }
    }

    pub fn term(&self, t: &T, out: &mut String) {
        let sp = self.sep;
        match t {
            T::Id => out.push('.'),
            T::Recurse => out.push_str(".."),
            T::Num(n) => out.push_str(n),
            T::Str(f, parts) => self.strlit(f, parts, out),
            T::Arr(None) => out.push_str("[]"),
            T::Arr(Some(f)) => {
                out.push('[');
                self.term(f, out);
                out.push(']');
            }
            T::Obj(kvs) => {
                out.push('{');
                for (i, (k, v)) in kvs.iter().enumerate() {
                    if i > 0 {
                        out.push(',');
                    }
                    match (k, v) {
                        (T::Var(x), None) => out.push_str(x),
                        (T::Var(x), Some(_)) => out.push_str(x),
                        (T::Str(..), _) => self.term(k, out),
                        _ => self.paren(k, out),
                    }
                    if let Some(v) = v {
                        out.push(':');
                        // object values may not contain a bare comma; pipes are fine in jaq
                        let needs = match v {
                            T::Bin(_, Op::Comma, _) => true,
                            T::Bin(..) | T::As(..) => contains_top_comma(v),
                            _ => false,
                        };
                        if needs || open_right(v) || self.style == Style::Full && is_binlike(v) {
                            self.paren(v, out)
                        } else {
                            self.term(v, out)
                        }
                    }
                }
                out.push('}');
            }
            T::Neg(f) => {
                out.push('-');
                self.atom(f, out);
            }
            T::Bin(l, op, r) => {
                let (p, ra) = prec(op);
                self.operand(l, p, ra, true, out);
                out.push_str(sp);
                out.push_str(&op_str(op));
                out.push_str(sp);
                self.operand(r, p, ra, false, out);
            }
            T::As(l, p, r) => {
                // to the left the regular precedences apply (level 2, groups to the right)
                self.operand(l, 2, true, true, out);
                out.push_str(" as ");
                self.pat(p, out);
                out.push_str(sp);
                out.push('|');
                out.push_str(sp);
                self.term(r, out);
            }
            T::Label(x, f) => {
                out.push_str("label ");
                out.push_str(x);
                out.push_str(sp);
                out.push('|');
                out.push_str(sp);
                self.term(f, out);
            }
            T::Break(x) => {
                out.push_str("break ");
                out.push_str(x);
            }
            T::Fold(name, xs, p, args) => {
                out.push_str(name);
                out.push(' ');
                self.atom(xs, out);
                out.push_str(" as ");
                self.pat(p, out);
                out.push_str(sp);
                out.push('(');
                for (i, a) in args.iter().enumerate() {
                    if i > 0 {
                        out.push(';');
                    }
                    self.term(a, out);
                }
                out.push(')');
            }
            T::Try(f, c) => {
                out.push_str("try ");
                if c.is_some() && ends_in_open_try(f) || matches!(**f, T::Try(..)) {
                    // `try try a catch b` and `try -try a catch b` would attach the catch to the inner try
                    self.paren(f, out)
                } else {
                    self.atom(f, out)
                }
                if let Some(c) = c {
                    out.push_str(" catch ");
                    self.atom(c, out);
                }
            }
            T::If(its, e) => {
                for (i, (c, t)) in its.iter().enumerate() {
                    out.push_str(if i == 0 { "if " } else { " elif " });
                    self.term(c, out);
                    out.push_str(" then ");
                    self.term(t, out);
                }
                if let Some(e) = e {
                    out.push_str(" else ");
                    self.term(e, out);
                }
                out.push_str(" end");
            }
            T::Def(ds, f) => {
                self.defs(ds, out);
                self.term(f, out);
            }
            T::Call(n, args) => {
                out.push_str(n);
                if !args.is_empty() {
                    out.push('(');
                    for (i, a) in args.iter().enumerate() {
                        if i > 0 {
                            out.push(';');
                        }
                        self.term(a, out);
                    }
                    out.push(')');
                }
            }
            T::Var(x) => out.push_str(x),
            T::Path(head, parts) => {
                let head_is_id = matches!(**head, T::Id);
                match &**head {
                    T::Id => {}
                    T::Call(..) | T::Var(_) | T::Str(..) | T::Arr(_) | T::Obj(_) => self.term(head, out),
                    _ => self.paren(head, out),
                }
                for (i, (p, opt)) in parts.iter().enumerate() {
                    let first = i == 0 && head_is_id;
                    match p {
                        Part::Index(T::Str(None, ps)) if matches!(&ps[..], [SP::S(s)] if ident_like(s) && !s.contains("::")) => {
                            if let [SP::S(s)] = &ps[..] {
                                out.push('.');
                                out.push_str(s);
                            }
                        }
                        Part::Index(t) => {
                            if first {
                                out.push('.');
                            }
                            out.push('[');
                            self.term(t, out);
                            out.push(']');
                        }
                        Part::Range(x, y) => {
                            if first {
                                out.push('.');
                            }
                            out.push('[');
                            if let Some(x) = x {
                                self.term(x, out);
                            }
                            if x.is_some() || y.is_some() {
                                out.push(':');
                            }
                            if let Some(y) = y {
                                self.term(y, out);
                            }
                            out.push(']');
                        }
                    }
                    if *opt {
                        out.push('?');
                    }
                }
            }
        }
    }
}

/// printed as an atom, does the term end in a `try` that has no `catch` yet (so that a following
/// `catch` would be taken by it)?
fn ends_in_open_try(t: &T) -> bool {
    match t {
        T::Try(_, None) => true,
        T::Try(_, Some(c)) => ends_in_open_try(c),
        T::Neg(f) => ends_in_open_try(f),
        _ => false,
    }
}

fn contains_top_comma(t: &T) -> bool {
    match t {
        T::Bin(l, op, r) => *op == Op::Comma || contains_top_comma(l) || contains_top_comma(r),
        T::As(l, _, r) => contains_top_comma(l) || contains_top_comma(r),
        T::Neg(f) => contains_top_comma(f),
        _ => false,
    }
}

pub fn show(t: &T) -> String {
    Printer::default().print(t)
}
