//! C01 — compiled filters compute the definitional semantics.
//! Bounded exhaustive enumeration of programs x inputs; every case is a model trace
//! replayed against the real compiler + interpreter.
use crate::ev::{h64, Counts, Run, Tier};
use crate::gen::{self, Alphabet};
use crate::jq;
use crate::reval::{self, Env};
use crate::rterm::{self as rt, *};
use crate::rval::{self as rv, RVal};
use crate::tracecmp::{compare, Verdict};
use rayon::prelude::*;
use serde_json::json;

thread_local! {
    static PRELUDE: Env = reval::prelude_env();
}

pub fn prelude() -> Env {
    PRELUDE.with(|e| e.clone())
}

pub const FUEL: u64 = 30_000;

#[derive(Default)]
pub struct Stats {
    pub c: Counts,
    pub programs: u64,
    pub undecided: u64,
    pub partial: u64,
    pub multi_out: u64,
    pub with_err: u64,
}

impl Stats {
    pub fn merge(mut self, o: Stats) -> Stats {
        self.c = self.c.merge(o.c);
        self.programs += o.programs;
        self.undecided += o.undecided;
        self.partial += o.partial;
        self.multi_out += o.multi_out;
        self.with_err += o.with_err;
        self
    }
    pub fn json(&self) -> serde_json::Value {
        json!({"programs": self.programs, "pairs": self.c.evaluations, "undecided_by_model": self.undecided, "partially_compared": self.partial,
               "cases_with_several_outputs": self.multi_out, "cases_ending_in_error": self.with_err})
    }
}

/// Compare one program on all inputs. `vars`: global variables given to both sides.
pub fn check_program(run: &Run, st: &mut Stats, fam: &str, t: &T, inputs: &[RVal], stream: &[RVal], max: usize) {
    let text = rt::show(t);
    st.programs += 1;
    let env = prelude();
    // model first: a case the model cannot decide (fuel = possible divergence) is never run
    let models: Vec<_> = inputs.iter().map(|i| reval::run_model(t, &env, i, stream.to_vec(), max, FUEL)).collect();
    if models.iter().all(|m| m.undecided.is_some()) {
        st.undecided += models.len() as u64;
        return;
    }
    let f = match jq::compile(&text, &[]) {
        Ok(f) => f,
        Err(e) => {
            if models.iter().any(|m| matches!(&m.undecided, Some(u) if u.contains("unbound"))) {
                st.undecided += models.len() as u64;
                return;
            }
            run.violation(&format!("{fam}: {text} (compile)"), json!({"family": fam, "program": text, "what": "well-formed program rejected by the compiler", "error": e}));
            return;
        }
    };
    for (i, m) in inputs.iter().zip(&models) {
        if m.undecided.is_some() {
            st.undecided += 1;
            continue;
        }
        let imp = crate::ev::watched(|| format!("{fam}: {text} @ {i}"), true, || jq::run_trace(&f, jq::to_val(i), vec![], stream.iter().map(jq::to_val).collect(), max));
        let outs = m.trace.iter().filter(|e| matches!(e, jq::Ev::Out(_))).count();
        let err = matches!(m.trace.last(), Some(jq::Ev::Err(_)));
        if outs > 1 {
            st.multi_out += 1;
        }
        if err {
            st.with_err += 1;
        }
        let key = h64(&(fam, &text, i.to_string()));
        st.c.case(key, outs > 0 || err, h64(&jq::trace_json(&m.trace).to_string()));
        st.c.transitions += m.trace.len() as u64;
        match compare(m, &imp) {
            Verdict::Same => {}
            Verdict::Undecided => st.undecided += 1,
            Verdict::Partial => st.partial += 1,
            Verdict::Differ(why) => {
                // reproduce once more before reporting (guards against uncaptured nondeterminism)
                let imp2 = jq::run_trace(&f, jq::to_val(i), vec![], stream.iter().map(jq::to_val).collect(), max);
                let stable = jq::trace_json(&imp).to_string() == jq::trace_json(&imp2).to_string();
                let key = if fam == "F-path-effect" { format!("{fam}: {text} @ {i} => {}", jq::trace_json(&imp)) } else { format!("{fam}: {text} @ {i}") };
                run.violation(
                    &key,
                    json!({"family": fam, "program": text, "input": i.to_string(), "input_stream": stream.iter().map(|x| x.to_string()).collect::<Vec<_>>(),
                           "why": why, "model_trace": jq::trace_json(&m.trace), "impl_trace": jq::trace_json(&imp), "reproduced": stable}),
                );
            }
        }
        if st.c.evaluations % 50_000 == 1 && run.n_samples() < 30 {
            run.sample(json!({"family": fam, "program": text, "input": i.to_string(), "trace": jq::trace_json(&m.trace)}));
        }
    }
}

pub fn std_inputs() -> Vec<RVal> {
    ["null", "0", "1", "\"a\"", "[]", "[1,2]", "[[1],[2,3]]", "{\"a\":1}", "{\"a\":[1,2],\"b\":{\"c\":3}}"].iter().map(|s| crate::eval_const(s)).collect()
}

// ------------------------------------------------------------------ F-bind: binder nests

#[derive(Clone, Default)]
struct Scope {
    vars: Vec<&'static str>,
    labels: Vec<&'static str>,
    /// callable nullary names
    funs: Vec<&'static str>,
    /// names that must not be called here (would recurse forever)
    blocked: Vec<&'static str>,
}

impl Scope {
    fn add<'a>(v: &mut Vec<&'a str>, n: &'a str) {
        if !v.contains(&n) {
            v.push(n);
        }
    }
    fn var(&self, n: &'static str) -> Scope {
        let mut s = self.clone();
        Self::add(&mut s.vars, n);
        s
    }
    fn label(&self, n: &'static str) -> Scope {
        let mut s = self.clone();
        Self::add(&mut s.labels, n);
        s
    }
    fn fun(&self, n: &'static str) -> Scope {
        let mut s = self.clone();
        Self::add(&mut s.funs, n);
        s.blocked.retain(|b| *b != n);
        s
    }
    fn block(&self, n: &'static str) -> Scope {
        let mut s = self.clone();
        Self::add(&mut s.blocked, n);
        s
    }
    /// environment dump: input, every visible variable, the outputs of every callable nullary name
    fn dump(&self) -> T {
        let mut items = vec![T::Id];
        for v in &self.vars {
            items.push(var(v));
        }
        for f in &self.funs {
            if !self.blocked.contains(f) {
                items.push(call0(f));
            }
        }
        let mut it = items.into_iter();
        let first = it.next().unwrap();
        arr(it.fold(first, comma))
    }
}

struct Fresh(std::cell::Cell<i64>);
impl Fresh {
    fn n(&self) -> T {
        let v = self.0.get() + 1;
        self.0.set(v);
        num(v)
    }
}

const NFORMS: usize = 20;

/// build the nest described by `forms` (one form index per level)
fn nest(forms: &[usize], sc: &Scope, fr: &Fresh, leaf_break: Option<&'static str>) -> Option<T> {
    let Some((&f, rest)) = forms.split_first() else {
        let d = sc.dump();
        return Some(match leaf_break {
            None => d,
            Some(l) if sc.labels.contains(&l) => comma(d, T::Break(l.into())),
            Some(_) => return None,
        });
    };
    let pv = |n: &str| Pat::Var(n.into());
    let go = |sc: &Scope| nest(rest, sc, fr, leaf_break);
    Some(match f {
        0 => as_(fr.n(), pv("$x"), go(&sc.var("$x"))?),
        1 => as_(fr.n(), pv("$y"), go(&sc.var("$y"))?),
        2 => as_(arr(comma(fr.n(), fr.n())), Pat::Arr(vec![pv("$x"), pv("$y")]), go(&sc.var("$x").var("$y"))?),
        3 => as_(T::Obj(vec![(strlit("a"), Some(fr.n())), (strlit("b"), Some(fr.n()))]), Pat::Obj(vec![(strlit("a"), pv("$y")), (strlit("b"), pv("$x"))]), go(&sc.var("$x").var("$y"))?),
        4 => as_(T::Obj(vec![(strlit("a"), Some(fr.n()))]), Pat::Obj(vec![(comma(strlit("a"), strlit("b")), pv("$x"))]), go(&sc.var("$x"))?),
        5 => T::Label("$x".into(), b(comma(go(&sc.label("$x"))?, fr.n()))),
        6 => T::Label("$y".into(), b(comma(go(&sc.label("$y"))?, fr.n()))),
        7 | 8 => {
            let name = if f == 7 { "f" } else { "g" };
            // the body sees the scope at the definition site, itself excluded
            let body = arr(comma(fr.n(), sc.block(name).dump()));
            T::Def(vec![DefD { name: name.into(), args: vec![], body }], b(go(&sc.fun(name))?))
        }
        9 => {
            // def f(g): [m, g, dump]; f(B) — the argument is evaluated in the call-site environment
            let inner = sc.fun("g").block("f");
            let body = arr(comma(comma(fr.n(), call0("g")), inner.dump()));
            let arg = go(&sc.block("f"))?;
            T::Def(vec![DefD { name: "f".into(), args: vec!["g".into()], body }], b(call("f", vec![arg])))
        }
        10 => {
            // def f($x; g): [m, $x, g]; f(m2; B)
            let body = arr(comma(comma(fr.n(), var("$x")), call0("g")));
            let arg = go(&sc.block("f"))?;
            T::Def(vec![DefD { name: "f".into(), args: vec!["$x".into(), "g".into()], body }], b(call("f", vec![fr.n(), arg])))
        }
        11 => T::Fold("foreach".into(), b(comma(fr.n(), fr.n())), pv("$y"), vec![num(0), bin(T::Id, Op::Math('+'), num(1)), go(&sc.var("$y"))?]),
        12 => as_(T::Id, pv("$x"), go(&sc.var("$x"))?),
        13 => {
            // recursion through f before the inner nest is reached
            let body = T::If(vec![(bin(T::Id, Op::Cmp("<"), num(1)), pipe(bin(T::Id, Op::Math('+'), num(1)), call0("f")))], Some(b(go(&sc.block("f"))?)));
            T::Def(vec![DefD { name: "f".into(), args: vec![], body }], b(pipe(num(0), call0("f"))))
        }
        14 => {
            // nested definition capturing the filter argument of its parent
            let h = DefD { name: "h".into(), args: vec![], body: arr(comma(fr.n(), call0("g"))) };
            let body = T::Def(vec![h], b(call0("h")));
            let arg = go(&sc.block("f"))?;
            T::Def(vec![DefD { name: "f".into(), args: vec!["g".into()], body }], b(call("f", vec![arg])))
        }
        15 => T::Fold("reduce".into(), b(fr.n()), pv("$x"), vec![num(0), go(&sc.var("$x"))?]),
        16 => {
            // two sibling definitions: the later one sees the earlier one
            let d1 = DefD { name: "g".into(), args: vec![], body: arr(fr.n()) };
            let d2 = DefD { name: "f".into(), args: vec![], body: arr(comma(fr.n(), call0("g"))) };
            T::Def(vec![d1, d2], b(go(&sc.fun("g").fun("f"))?))
        }
        17 => {
            // a computed pattern key that refers to an outer variable, after an earlier binder of the same pattern
            let src = T::Obj(vec![(strlit("b"), Some(fr.n())), (strlit("c"), Some(T::Obj(vec![(strlit("a"), Some(fr.n()))])))]);
            let pat = Pat::Obj(vec![(strlit("b"), pv("$x")), (strlit("c"), Pat::Obj(vec![(var("$y"), pv("$y"))]))]);
            as_(strlit("a"), pv("$y"), as_(src, pat, go(&sc.var("$x").var("$y"))?))
        }
        18 => {
            let src = arr(comma(fr.n(), T::Obj(vec![(strlit("a"), Some(fr.n()))])));
            let pat = Pat::Arr(vec![pv("$y"), Pat::Obj(vec![(var("$x"), pv("$x"))])]);
            as_(strlit("a"), pv("$x"), as_(src, pat, go(&sc.var("$x").var("$y"))?))
        }
        19 => {
            // pattern key computed from the matched value and an outer variable, under a label
            let src = T::Obj(vec![(strlit("k"), Some(strlit("a"))), (strlit("a"), Some(fr.n()))]);
            let pat = Pat::Obj(vec![(strlit("k"), pv("$y")), (idx(T::Id, strlit("k")), pv("$x"))]);
            T::Label("$x".into(), b(as_(src, pat, go(&sc.label("$x").var("$x").var("$y"))?)))
        }
        _ => unreachable!(),
    })
}

fn fam_bind(run: &Run, depth: usize) -> Stats {
    let inputs: Vec<RVal> = vec![rv::int(0), rv::s("a")];
    let total = NFORMS.pow(depth as u32);
    (0..total)
        .into_par_iter()
        .fold(Stats::default, |mut st, idx| {
            let mut forms = vec![];
            let mut i = idx;
            for _ in 0..depth {
                forms.push(i % NFORMS);
                i /= NFORMS;
            }
            for lb in [None, Some("$x"), Some("$y")] {
                let fr = Fresh(std::cell::Cell::new(10));
                if let Some(t) = nest(&forms, &Scope::default(), &fr, lb) {
                    check_program(run, &mut st, "F-bind", &t, &inputs, &[], 24);
                }
            }
            st
        })
        .reduce(Stats::default, Stats::merge)
}

// ------------------------------------------------------------------ F-small: all terms up to a size

fn renumber_ticks(t: &T) -> T {
    fn go(t: &T, n: &mut i64) -> T {
        match t {
            T::Call(name, a) if name == "tick" && a.len() == 1 => {
                *n += 1;
                call("tick", vec![T::Num(n.to_string())])
            }
            T::Call(name, a) => T::Call(name.clone(), a.iter().map(|x| go(x, n)).collect()),
            T::Arr(Some(f)) => T::Arr(Some(b(go(f, n)))),
            T::Obj(kvs) => T::Obj(kvs.iter().map(|(k, v)| (go(k, n), v.as_ref().map(|v| go(v, n)))).collect()),
            T::Neg(f) => T::Neg(b(go(f, n))),
            T::Bin(l, op, r) => {
                let l = go(l, n);
                T::Bin(b(l), op.clone(), b(go(r, n)))
            }
            T::As(l, p, r) => {
                let l = go(l, n);
                T::As(b(l), p.clone(), b(go(r, n)))
            }
            T::Label(x, f) => T::Label(x.clone(), b(go(f, n))),
            T::Fold(name, xs, p, args) => {
                let xs = go(xs, n);
                T::Fold(name.clone(), b(xs), p.clone(), args.iter().map(|x| go(x, n)).collect())
            }
            T::Try(f, c) => {
                let f = go(f, n);
                T::Try(b(f), c.as_ref().map(|c| b(go(c, n))))
            }
            T::If(its, e) => T::If(
                its.iter()
                    .map(|(c, t)| {
                        let c = go(c, n);
                        (c, go(t, n))
                    })
                    .collect(),
                e.as_ref().map(|e| b(go(e, n))),
            ),
            T::Def(ds, f) => {
                let ds = ds.iter().map(|d| DefD { name: d.name.clone(), args: d.args.clone(), body: go(&d.body, n) }).collect();
                T::Def(ds, b(go(f, n)))
            }
            T::Str(f, parts) => T::Str(f.clone(), parts.iter().map(|p| match p {
                SP::I(t) => SP::I(go(t, n)),
                s => s.clone(),
            }).collect()),
            T::Path(h, parts) => {
                let h = go(h, n);
                T::Path(
                    b(h),
                    parts
                        .iter()
                        .map(|(p, o)| {
                            (
                                match p {
                                    Part::Index(i) => Part::Index(go(i, n)),
                                    Part::Range(x, y) => {
                                        let x = x.as_ref().map(|x| go(x, n));
                                        Part::Range(x, y.as_ref().map(|y| go(y, n)))
                                    }
                                },
                                *o,
                            )
                        })
                        .collect(),
                )
            }
            t => t.clone(),
        }
    }
    go(t, &mut 0)
}

/// does the term contain an effect (tick/input) inside a path index or slice bound? (F7 family)
pub fn effect_in_path_index(t: &T) -> bool {
    fn has_effect(t: &T) -> bool {
        let s = format!("{t:?}");
        s.contains("Call(\"tick\"") || s.contains("Call(\"input\"") || s.contains("Call(\"inputs\"") || s.contains("Call(\"bomb\"")
    }
    fn go(t: &T) -> bool {
        match t {
            T::Path(h, parts) => {
                go(h)
                    || parts.iter().any(|(p, _)| match p {
                        Part::Index(i) => has_effect(i),
                        Part::Range(x, y) => x.as_ref().map_or(false, has_effect) || y.as_ref().map_or(false, has_effect),
                    })
            }
            T::Call(_, a) => a.iter().any(go),
            T::Arr(Some(f)) | T::Neg(f) | T::Label(_, f) => go(f),
            T::Obj(kvs) => kvs.iter().any(|(k, v)| go(k) || v.as_ref().map_or(false, go)),
            T::Bin(l, _, r) | T::As(l, _, r) => go(l) || go(r),
            T::Fold(_, xs, _, args) => go(xs) || args.iter().any(go),
            T::Try(f, c) => go(f) || c.as_ref().map_or(false, |c| go(c)),
            T::If(its, e) => its.iter().any(|(c, t)| go(c) || go(t)) || e.as_ref().map_or(false, |e| go(e)),
            T::Def(ds, f) => ds.iter().any(|d| go(&d.body)) || go(f),
            T::Str(_, parts) => parts.iter().any(|p| matches!(p, SP::I(t) if go(t))),
            _ => false,
        }
    }
    go(t)
}

pub fn has_effect(t: &T) -> bool {
    let s = format!("{t:?}");
    s.contains("Call(\"tick\"") || s.contains("Call(\"input\"") || s.contains("Call(\"inputs\"") || s.contains("Call(\"bomb\"")
}

/// Does a `reduce`/`foreach` have an effect in its source? The manual's expansion
/// (`init | x1 as $x | update | ...`) presupposes the outputs x1..xn and does not order the
/// evaluation of the source against `init`; such programs are not compared.
pub fn effect_in_fold_source(t: &T) -> bool {
    fn go(t: &T) -> bool {
        match t {
            T::Fold(_, xs, _, args) => has_effect(xs) || go(xs) || args.iter().any(go),
            T::Path(h, parts) => {
                go(h)
                    || parts.iter().any(|(p, _)| match p {
                        Part::Index(i) => go(i),
                        Part::Range(x, y) => x.as_ref().map_or(false, go) || y.as_ref().map_or(false, go),
                    })
            }
            T::Call(_, a) => a.iter().any(go),
            T::Arr(Some(f)) | T::Neg(f) | T::Label(_, f) => go(f),
            T::Obj(kvs) => kvs.iter().any(|(k, v)| go(k) || v.as_ref().map_or(false, go)),
            T::Bin(l, _, r) | T::As(l, _, r) => go(l) || go(r),
            T::Try(f, c) => go(f) || c.as_ref().map_or(false, |c| go(c)),
            T::If(its, e) => its.iter().any(|(c, t)| go(c) || go(t)) || e.as_ref().map_or(false, |e| go(e)),
            T::Def(ds, f) => ds.iter().any(|d| go(&d.body)) || go(f),
            T::Str(_, parts) => parts.iter().any(|p| matches!(p, SP::I(t) if go(t))),
            _ => false,
        }
    }
    go(t)
}

/// every program is placed in a fixed outer context so that all leaves are well-scoped
/// and inner binders shadow the outer ones
fn wrap(t: T) -> T {
    let d = DefD { name: "f".into(), args: vec![], body: comma(num(8), num(9)) };
    as_(num(7), Pat::Var("$x".into()), T::Label("$l".into(), b(T::Def(vec![d], b(t)))))
}

fn control_alphabet() -> Alphabet {
    let pv = || Pat::Var("$x".into());
    let mut a = Alphabet::default();
    a.leaves = vec![
        T::Id,
        num(1),
        comma(num(1), num(2)),
        call0("empty"),
        call("error", vec![strlit("e")]),
        call0("null"),
        call0("false"),
        var("$x"),
        tick(0),
        call0("input"),
        T::Break("$l".into()),
        call0("f"),
    ];
    a.un = vec![
        Box::new(|x| call("first", vec![x])),
        Box::new(|x| T::Try(b(x), None)),
        Box::new(|x| T::Label("$l".into(), b(x))),
        Box::new(|x| arr(x)),
        Box::new(|x| call("limit", vec![num(1), x])),
        Box::new(|x| call("last", vec![x])),
        Box::new(|x| call("isempty", vec![x])),
    ];
    a.bin = vec![
        Box::new(pipe),
        Box::new(comma),
        Box::new(|x, y| bin(x, Op::Alt, y)),
        Box::new(|x, y| bin(x, Op::And, y)),
        Box::new(|x, y| bin(x, Op::Or, y)),
        Box::new(|x, y| T::Try(b(x), Some(b(y)))),
        Box::new(move |x, y| as_(x, pv(), y)),
        Box::new(|x, y| T::Def(vec![DefD { name: "f".into(), args: vec![], body: x }], b(y))),
        Box::new(|x, y| call("limit", vec![x, y])),
        Box::new(|x, y| T::If(vec![(x, y)], None)),
        Box::new(|x, y| T::Def(vec![DefD { name: "f".into(), args: vec!["g".into()], body: pipe(call0("g"), x) }], b(call("f", vec![y])))),
    ];
    a.ter = vec![
        Box::new(|x, y, z| T::If(vec![(x, y)], Some(b(z)))),
        Box::new(|x, y, z| T::Fold("reduce".into(), b(x), Pat::Var("$x".into()), vec![y, z])),
        Box::new(|x, y, z| T::Fold("foreach".into(), b(x), Pat::Var("$x".into()), vec![y, z])),
    ];
    a.quad = vec![Box::new(|x, y, z, w| T::Fold("foreach".into(), b(x), Pat::Var("$x".into()), vec![y, z, w]))];
    a
}

fn value_alphabet() -> Alphabet {
    let mut a = Alphabet::default();
    a.leaves = vec![
        T::Id,
        num(0),
        num(1),
        strlit("a"),
        arr(comma(num(1), num(2))),
        T::Obj(vec![(strlit("a"), Some(num(1)))]),
        comma(num(1), num(2)),
        idx(T::Id, num(0)),
        idx(T::Id, strlit("a")),
        var("$x"),
        T::Recurse,
        call0("null"),
    ];
    a.un = vec![
        Box::new(|x| T::Neg(b(x))),
        Box::new(arr),
        Box::new(iter),
        Box::new(|x| T::Str(None, vec![SP::S("s".into()), SP::I(x)])),
        Box::new(|x| T::Str(Some("@json".into()), vec![SP::I(x), SP::S("t".into())])),
        Box::new(|x| T::Path(b(x), vec![(Part::Range(None, None), true)])),
        Box::new(|x| call("path", vec![x])),
        Box::new(|x| T::Path(b(T::Id), vec![(Part::Range(Some(x), None), false)])),
    ];
    let mut bins: Vec<Box<dyn Fn(T, T) -> T + Sync + Send>> = vec![];
    for c in ['+', '-', '*', '/', '%'] {
        bins.push(Box::new(move |x, y| bin(x, Op::Math(c), y)));
    }
    for c in ["<", "<=", "==", "!=", ">", ">="] {
        bins.push(Box::new(move |x, y| bin(x, Op::Cmp(c), y)));
    }
    for op in [Op::Assign, Op::Update, Op::UpdateMath('+'), Op::UpdateMath('-'), Op::UpdateAlt] {
        bins.push(Box::new(move |x, y| bin(x, op.clone(), y)));
    }
    bins.push(Box::new(|k, v| T::Obj(vec![(k, Some(v))])));
    bins.push(Box::new(idx));
    bins.push(Box::new(|h, i| T::Path(b(h), vec![(Part::Index(i), true)])));
    bins.push(Box::new(pipe));
    bins.push(Box::new(comma));
    bins.push(Box::new(|x, y| T::Str(None, vec![SP::I(x), SP::S("-".into()), SP::I(y)])));
    a.bin = bins;
    a.ter = vec![
        Box::new(|h, x, y| T::Path(b(h), vec![(Part::Range(Some(x), Some(y)), false)])),
        Box::new(|h, x, y| T::Path(b(h), vec![(Part::Index(x), false), (Part::Index(y), false)])),
        Box::new(|a, k, v| T::Obj(vec![(strlit("a"), Some(a)), (k, Some(v))])),
    ];
    a
}

fn fam_small(run: &Run, name: &'static str, a: &Alphabet, n: usize, inputs: &[RVal], stream: &[RVal]) -> Stats {
    let by = gen::terms_by_size(a, n.saturating_sub(1).max(1));
    let mut total = Stats::default();
    for s in 1..=n {
        if !run.time_left() {
            run.bound_capped(format!("{name}: size {s} not started (wall budget)"));
            break;
        }
        let one = |st: &mut Stats, t: T| {
            if effect_in_path_index(&t) || effect_in_fold_source(&t) {
                return; // F-path-effect is enumerated separately; fold-source effects are unordered
            }
            let t = wrap(renumber_ticks(&t));
            check_program(run, st, name, &t, inputs, stream, 16);
        };
        let st = if s == 1 {
            let mut st = Stats::default();
            for t in &by[1] {
                one(&mut st, t.clone());
            }
            st
        } else {
            gen::par_size(a, &by, s, Stats::default, |st, t| one(st, t), Stats::merge)
        };
        run.bound_done(format!("{name}: all terms with {s} nodes ({} programs)", st.programs));
        total = total.merge(st);
    }
    total
}

// ------------------------------------------------------------------ F-order: nesting order of multi-valued operands

fn order_operands() -> Vec<T> {
    vec![
        comma(num(1), num(2)),
        comma(num(3), num(4)),
        comma(num(1), call("error", vec![strlit("l")])),
        comma(call("error", vec![strlit("r")]), num(2)),
        call0("empty"),
        comma(pipe(tick(0), num(1)), num(2)),
        comma(strlit("a"), strlit("b")),
        comma(arr(num(1)), T::Obj(vec![(strlit("a"), Some(num(1)))])),
    ]
}

fn order_ops() -> Vec<Box<dyn Fn(T, T) -> T + Sync + Send>> {
    let mut ops: Vec<Box<dyn Fn(T, T) -> T + Sync + Send>> = vec![];
    for c in ['+', '-', '*', '/', '%'] {
        ops.push(Box::new(move |x, y| bin(x, Op::Math(c), y)));
    }
    for c in ["<", "<=", "==", "!=", ">", ">="] {
        ops.push(Box::new(move |x, y| bin(x, Op::Cmp(c), y)));
    }
    ops.push(Box::new(|x, y| bin(x, Op::And, y)));
    ops.push(Box::new(|x, y| bin(x, Op::Or, y)));
    ops.push(Box::new(|x, y| bin(x, Op::Alt, y)));
    ops.push(Box::new(|k, v| T::Obj(vec![(k, Some(v))])));
    ops.push(Box::new(|k, v| T::Obj(vec![(strlit("k"), Some(k)), (strlit("l"), Some(v))])));
    ops.push(Box::new(|x, y| T::Str(None, vec![SP::I(x), SP::S("-".into()), SP::I(y)])));
    ops.push(Box::new(|x, y| T::Path(b(arr(comma(comma(num(5), num(6)), num(7)))), vec![(Part::Range(Some(x), Some(y)), false)])));
    ops.push(Box::new(|x, y| T::Path(b(arr(comma(arr(comma(num(5), num(6))), arr(comma(num(7), num(8)))))), vec![(Part::Index(x), true), (Part::Index(y), true)])));
    ops.push(Box::new(|x, y| T::Path(b(x), vec![(Part::Index(y), true)])));
    ops.push(Box::new(|x, y| T::Fold("reduce".into(), b(x), Pat::Var("$v".into()), vec![y, bin(T::Id, Op::Math('+'), var("$v"))])));
    ops.push(Box::new(|x, y| T::Fold("foreach".into(), b(x), Pat::Var("$v".into()), vec![y, bin(T::Id, Op::Math('+'), var("$v"))])));
    ops.push(Box::new(|x, y| T::Fold("foreach".into(), b(num(1)), Pat::Var("$v".into()), vec![num(0), x, y])));
    ops.push(Box::new(|x, y| bin(T::Path(b(T::Id), vec![(Part::Index(x), true)]), Op::Assign, y)));
    ops.push(Box::new(|x, y| bin(T::Path(b(T::Id), vec![(Part::Index(x), true)]), Op::UpdateMath('+'), y)));
    ops.push(Box::new(|x, y| bin(T::Id, Op::Update, comma(x, y))));
    ops.push(Box::new(|x, y| call("limit", vec![x, y])));
    ops.push(Box::new(|x, y| T::Def(vec![DefD { name: "h".into(), args: vec!["$a".into(), "$b".into()], body: arr(comma(var("$a"), var("$b"))) }], b(call("h", vec![x, y])))));
    ops.push(Box::new(|x, y| as_(arr(x), Pat::Arr(vec![Pat::Var("$a".into())]), as_(y, Pat::Var("$b".into()), arr(comma(var("$a"), var("$b")))))));
    ops
}

fn fam_order(run: &Run, depth2: bool) -> Stats {
    let leaves = order_operands();
    let ops = order_ops();
    let inputs: Vec<RVal> = vec![crate::eval_const("[10,20,30]"), RVal::Null, crate::eval_const("{\"a\":1,\"b\":2}")];
    let mut d1: Vec<T> = vec![];
    for op in &ops {
        for x in &leaves {
            for y in &leaves {
                d1.push(op(x.clone(), y.clone()));
            }
        }
    }
    let mut all: Vec<T> = d1.clone();
    if depth2 {
        for op in &ops {
            for x in &d1 {
                for y in &leaves[..4] {
                    all.push(op(x.clone(), y.clone()));
                    all.push(op(y.clone(), x.clone()));
                }
            }
        }
    }
    all.into_par_iter()
        .fold(Stats::default, |mut st, t| {
            if !effect_in_path_index(&t) && !effect_in_fold_source(&t) {
                check_program(run, &mut st, "F-order", &renumber_ticks(&t), &inputs, &[], 40);
            }
            st
        })
        .reduce(Stats::default, Stats::merge)
}

// ------------------------------------------------------------------ F-path-effect (known deviation F7)

fn fam_path_effect(run: &Run) -> Stats {
    // subject x index positions; a failing member is identified by program, input and observed trace
    let subjects = vec![T::Id, pipe(tick(0), T::Id), call0("input")];
    let idxs = vec![call0("input"), pipe(tick(0), num(0)), num(1)];
    let inputs: Vec<RVal> = vec![crate::eval_const("[10,20,30]")];
    let stream: Vec<RVal> = vec![crate::eval_const("[5,6,7]"), rv::int(1), rv::int(0)];
    let mut st = Stats::default();
    for s in &subjects {
        for i in &idxs {
            let mut progs = vec![
                idx(s.clone(), i.clone()),
                T::Path(b(s.clone()), vec![(Part::Range(Some(i.clone()), Some(num(1))), false)]),
                T::Path(b(s.clone()), vec![(Part::Range(Some(num(1)), Some(i.clone())), false)]),
            ];
            for j in [num(1), pipe(tick(0), num(0))] {
                progs.push(T::Path(b(s.clone()), vec![(Part::Index(i.clone()), false), (Part::Index(j), true)]));
            }
            for p in progs {
                check_program(run, &mut st, "F-path-effect", &renumber_ticks(&p), &inputs, &stream, 16);
            }
        }
    }
    st
}

// ------------------------------------------------------------------ F-rec: recursive definition nests

/// contexts placed around a recursive call (R = the call)
const REC_WRAPPERS: &[&str] = &[
    "R",
    "try R catch \"caught\"",
    "(R)?",
    "label $l | R",
    "label $l | (R, break $l, 6)",
    "first(R)",
    "[R]",
    "(R, 9)",
    "(8, R)",
    "R as $v | [$v]",
    "limit(2; R)",
    "(R | .)",
    "if true then R else 0 end",
    "(R // 7)",
    "(null // R)",
    "reduce R as $v (0; . + 1)",
    "foreach (1, 2) as $v (0; . + $v; R)",
    "def h: R; h",
    "def h(k): k; h(R)",
    "(tick(1) | R)",
    "isempty(R)",
    "{a: R}",
    "\"s\\(R)\"",
    "path(R)?",
    "(R | tick(2))",
];

/// base cases
const REC_BASES: &[&str] = &[".", "error(\"boom\")", "empty", "(., .)", "[.]", "error", "break $out"];

/// recursion shapes: W1/W2 = wrapped recursive calls, X = base case
const REC_SHAPES: &[&str] = &[
    "def f: if . >= 2 then X else (. + 1 | W1(f)) end; 0 | f",
    "def f: def g: W1(f); if . >= 2 then X else (. + 1 | g) end; 0 | f",
    "def f: def g: if . >= 2 then X else (. + 1 | W1(g)) end; W2(g); 0 | f",
    "def f: if . >= 2 then X else (. + 1 | W1(f)) end; def g: W2(f); 0 | g",
    "def f($n): if $n >= 2 then X else W1(f($n + 1)) end; f(0)",
    "def f(h): if . >= 2 then X else (h | W1(f(h))) end; 0 | f(. + 1)",
    "def f(h): if . >= 2 then X else W1(h) end; def g: . + 1 | W2(f(g)); 0 | g",
    "def f: def g: def h: W1(f); . + 1 | h; if . >= 2 then X else W2(g) end; 0 | f",
    "def f: if . >= 2 then X else (. + 1 | W1(f)), (. + 2 | W2(f)) end; 0 | f",
    "def f($a; g): if $a >= 2 then X else W1(f($a + 1; g | W2(.))) end; f(0; .)",
];

fn fam_rec(run: &Run, quick: bool) -> Stats {
    let mut progs: Vec<String> = vec![];
    let wr = |w: &str, call: &str| w.replace('R', call);
    for shape in REC_SHAPES {
        for x in REC_BASES {
            let two = shape.contains("W2(");
            for (i1, w1) in REC_WRAPPERS.iter().enumerate() {
                let w2s: Vec<&str> = if !two {
                    vec!["R"]
                } else if quick {
                    // quick: the second wrapper ranges over a third of the list, rotating with the first
                    REC_WRAPPERS.iter().enumerate().filter(|(i2, _)| (i1 + i2) % 3 == 0).map(|(_, w)| *w).collect()
                } else {
                    REC_WRAPPERS.to_vec()
                };
                for w2 in w2s {
                    // substitute the wrappers around the recursive calls
                    let mut s = shape.replace("X", x);
                    for (tag, w) in [("W1(", w1), ("W2(", &w2)] {
                        while let Some(p) = s.find(tag) {
                            // find the matching parenthesis
                            let start = p + tag.len();
                            let mut depth = 1;
                            let mut end = start;
                            for (j, c) in s[start..].char_indices() {
                                match c {
                                    '(' => depth += 1,
                                    ')' => {
                                        depth -= 1;
                                        if depth == 0 {
                                            end = start + j;
                                            break;
                                        }
                                    }
                                    _ => {}
                                }
                            }
                            let call = s[start..end].to_string();
                            s = format!("{}({}){}", &s[..p], wr(w, &call), &s[end + 1..]);
                        }
                    }
                    progs.push(format!("label $out | {s}"));
                }
            }
        }
    }
    progs.sort();
    progs.dedup();
    let inputs = [RVal::Null];
    progs
        .par_iter()
        .fold(Stats::default, |mut st, p| {
            match rt::parse_with_jaq(p) {
                Some(t) => check_program(run, &mut st, "F-rec", &renumber_ticks(&t), &inputs, &[], 24),
                None => run.violation(&format!("F-rec: {p} (parse)"), json!({"program": p, "what": "well-formed program rejected by the parser"})),
            }
            st
        })
        .reduce(Stats::default, Stats::merge)
}

pub fn main(tier: Tier) -> ! {
    jq::quiet_panics();
    let run = Run::new("C01", "model_checking", tier);
    let st = fam_rec(&run, run.quick());
    run.family("F-rec", st.json());
    run.bound_done("F-rec: 10 recursion shapes x 7 base cases x 25 wrappers around each recursive call");
    run.add(st.c);
    let inputs = std_inputs();
    let stream: Vec<RVal> = vec![rv::int(5), rv::int(6), rv::int(7)];

    let st = fam_order(&run, !run.quick());
    run.family("F-order", st.json());
    run.add(st.c);

    let st = fam_path_effect(&run);
    run.family("F-path-effect", st.json());
    run.add(st.c);

    // 20 binding forms: depth 5 is 5.2 million nests; depth 6 (110 million) does not fit a thorough run
    let maxd = if run.quick() { 4 } else { 5 };
    for d in 1..=maxd {
        if !run.time_left() {
            run.bound_capped(format!("F-bind: depth {d} not started (wall budget)"));
            break;
        }
        let st = fam_bind(&run, d);
        run.family(&format!("F-bind depth {d}"), st.json());
        run.bound_done(format!("F-bind: all nests of depth {d}"));
        run.add(st.c);
    }

    let n = if run.quick() { 4 } else { 5 };
    let st = fam_small(&run, "F-small-control", &control_alphabet(), n, &inputs[..5], &stream);
    run.family("F-small-control", st.json());
    run.add(st.c);
    let st = fam_small(&run, "F-small-value", &value_alphabet(), n, &inputs, &stream);
    run.family("F-small-value", st.json());
    run.add(st.c);

    run.finish(
        "programs are enumerated exhaustively per family (binder nests of depth <= 4 (thorough 5) over 20 binding forms x 3 leaf variants; 10 recursion shapes x 7 bases x 25 wrappers; all terms with <= n constructor nodes over a control and a value alphabet; all operator x operand-pair combinations); each program is printed by the harness's own printer, compiled by the real compiler and run item by item; the event trace (outputs, first error/halt, effect ticks, input pulls) must equal the reference evaluator's. non-trivial = the model trace has at least one output or ends in an error; distinct = distinct (family, program text, input)",
        &["the reference evaluator and its prelude are transcribed from docs/*.dj; built-in error messages are not compared", "output streams are compared on the first 16-40 outputs", "programs whose model run exhausts its fuel are not compared (reported as undecided_by_model)"],
    )
}
