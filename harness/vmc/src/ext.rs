//! Process-level helpers: run a Python driver under /verif/py and merge its report into the run.
use crate::ev::{h64, Counts, Run};
use serde_json::Value;
use std::process::{Command, Stdio};

pub fn jaq_bin() -> String {
    std::env::var("JAQ_BIN").unwrap_or_else(|_| "/verif/target/jaqbin/debug/jaq".into())
}

pub fn verif_root() -> std::path::PathBuf {
    // the directory that holds py/ and tools/ (the harness lives in <root>/harness)
    std::env::var("VERIF_ROOT").map(Into::into).unwrap_or_else(|_| {
        let exe = std::env::current_exe().unwrap();
        // <root>/harness/target/<profile>/vmc
        exe.ancestors().nth(4).map(|p| p.to_path_buf()).unwrap_or_else(|| "/verif".into())
    })
}

/// Run `python3 <root>/py/<script> <tier> <args..>`; the script prints one JSON object:
/// {"cases": [[key, nontrivial, outcome], ...] | "n_cases": .., "violations": [{"key":..,"detail":..}], "families": {...}, "samples": [...], "bounds": [...], "capped": [...]}
pub fn run_python(run: &Run, script: &str, args: &[&str]) -> Counts {
    let root = verif_root();
    let tier = if run.quick() { "quick" } else { "thorough" };
    let out = Command::new("python3")
        .arg(root.join("py").join(script))
        .arg(tier)
        .args(args)
        .env("JAQ_BIN", jaq_bin())
        .env("VERIF_ROOT", &root)
        .env("VERIF_BUDGET_S", format!("{}", run.deadline_s))
        .env("LC_ALL", "C.UTF-8")
        .stdin(Stdio::null())
        .stderr(Stdio::inherit())
        .output()
        .expect("python3");
    if !out.status.success() {
        eprintln!("machinery error: {script} exited with {:?}", out.status);
        std::process::exit(2);
    }
    let v: Value = match serde_json::from_slice(&out.stdout) {
        Ok(v) => v,
        Err(e) => {
            eprintln!("machinery error: {script} did not print a JSON report: {e}\n{}", String::from_utf8_lossy(&out.stdout).chars().take(500).collect::<String>());
            std::process::exit(2);
        }
    };
    let mut c = Counts::default();
    if let Some(cases) = v["cases"].as_array() {
        for k in cases {
            c.case(h64(k[0].as_str().unwrap_or("")), k[1].as_bool().unwrap_or(true), h64(&k[2].to_string()));
        }
    }
    c.transitions += v["transitions"].as_u64().unwrap_or(0);
    if let Some(vs) = v["violations"].as_array() {
        for x in vs {
            run.violation(x["key"].as_str().unwrap_or("?"), x["detail"].clone());
        }
    }
    if let Some(f) = v["families"].as_object() {
        for (k, x) in f {
            run.family(k, x.clone());
        }
    }
    if let Some(s) = v["samples"].as_array() {
        for x in s {
            run.sample(x.clone());
        }
    }
    if let Some(b) = v["bounds"].as_array() {
        for x in b {
            run.bound_done(x.as_str().unwrap_or("").to_string());
        }
    }
    if let Some(b) = v["capped"].as_array() {
        for x in b {
            run.bound_capped(x.as_str().unwrap_or("").to_string());
        }
    }
    c
}
