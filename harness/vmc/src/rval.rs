//! Reference value model (E1): boring, list-based, written from the manual.
//! No hashing, no sharing, exact integers.
use num_bigint::BigInt;
use num_traits::{Signed, ToPrimitive, Zero};
use std::cmp::Ordering;

#[derive(Clone, Debug)]
pub enum RVal {
    Null,
    Bool(bool),
    Int(BigInt),
    Float(f64),
    /// decimal literal, kept as text until calculated with
    Dec(String),
    /// bytes, is_byte_string
    Str(Vec<u8>, bool),
    Arr(Vec<RVal>),
    /// association list in insertion order
    Obj(Vec<(RVal, RVal)>),
}

/// Result of a model operation. `Err(())` = built-in error (message unspecified).
pub type R<T = RVal> = Result<T, ()>;

pub fn int(i: i64) -> RVal {
    RVal::Int(BigInt::from(i))
}
pub fn s(x: &str) -> RVal {
    RVal::Str(x.as_bytes().to_vec(), false)
}
pub fn bs(x: &[u8]) -> RVal {
    RVal::Str(x.to_vec(), true)
}

impl RVal {
    pub fn truthy(&self) -> bool {
        !matches!(self, RVal::Null | RVal::Bool(false))
    }
    pub fn is_num(&self) -> bool {
        matches!(self, RVal::Int(_) | RVal::Float(_) | RVal::Dec(_))
    }
    pub fn is_int(&self) -> bool {
        matches!(self, RVal::Int(_))
    }
    pub fn type_name(&self) -> &'static str {
        match self {
            RVal::Null => "null",
            RVal::Bool(_) => "boolean",
            RVal::Int(_) | RVal::Float(_) | RVal::Dec(_) => "number",
            RVal::Str(..) => "string",
            RVal::Arr(_) => "array",
            RVal::Obj(_) => "object",
        }
    }
    /// the IEEE double a number converts to
    pub fn f64(&self) -> Option<f64> {
        match self {
            RVal::Int(i) => Some(i.to_f64().unwrap()),
            RVal::Float(f) => Some(*f),
            RVal::Dec(d) => Some(d.parse().unwrap_or(f64::NAN)),
            _ => None,
        }
    }
    pub fn has_nan(&self) -> bool {
        match self {
            RVal::Float(_) | RVal::Dec(_) => self.f64().unwrap().is_nan(),
            RVal::Arr(a) => a.iter().any(|x| x.has_nan()),
            RVal::Obj(o) => o.iter().any(|(k, v)| k.has_nan() || v.has_nan()),
            _ => false,
        }
    }
    pub fn depth(&self) -> usize {
        match self {
            RVal::Arr(a) => 1 + a.iter().map(|x| x.depth()).max().unwrap_or(0),
            RVal::Obj(o) => 1 + o.iter().map(|(k, v)| k.depth().max(v.depth())).max().unwrap_or(0),
            _ => 0,
        }
    }
}

// ---------------------------------------------------------------- order (#ordering)

fn rank(v: &RVal) -> u8 {
    match v {
        RVal::Null => 0,
        RVal::Bool(_) => 1,
        RVal::Int(_) | RVal::Float(_) | RVal::Dec(_) => 2,
        RVal::Str(..) => 3,
        RVal::Arr(_) => 4,
        RVal::Obj(_) => 5,
    }
}

fn fcmp(a: f64, b: f64) -> Ordering {
    // NaN is smaller than any number including itself
    if a.is_nan() {
        Ordering::Less
    } else if b.is_nan() {
        Ordering::Greater
    } else {
        a.partial_cmp(&b).unwrap() // -0.0 == 0.0
    }
}

pub fn cmp(a: &RVal, b: &RVal) -> Ordering {
    use RVal::*;
    match (a, b) {
        (Null, Null) => Ordering::Equal,
        (Bool(x), Bool(y)) => x.cmp(y),
        (Int(x), Int(y)) => x.cmp(y),
        (x, y) if x.is_num() && y.is_num() => fcmp(x.f64().unwrap(), y.f64().unwrap()),
        (Str(x, _), Str(y, _)) => x.cmp(y),
        (Arr(x), Arr(y)) => {
            for (p, q) in x.iter().zip(y.iter()) {
                let c = cmp(p, q);
                if c != Ordering::Equal {
                    return c;
                }
            }
            x.len().cmp(&y.len())
        }
        (Obj(x), Obj(y)) => {
            let mut ex: Vec<&(RVal, RVal)> = x.iter().collect();
            let mut ey: Vec<&(RVal, RVal)> = y.iter().collect();
            ex.sort_by(|p, q| cmp(&p.0, &q.0));
            ey.sort_by(|p, q| cmp(&p.0, &q.0));
            let kx = Arr(ex.iter().map(|e| e.0.clone()).collect());
            let ky = Arr(ey.iter().map(|e| e.0.clone()).collect());
            let c = cmp(&kx, &ky);
            if c != Ordering::Equal {
                return c;
            }
            let vx = Arr(ex.iter().map(|e| e.1.clone()).collect());
            let vy = Arr(ey.iter().map(|e| e.1.clone()).collect());
            cmp(&vx, &vy)
        }
        _ => rank(a).cmp(&rank(b)),
    }
}

/// `==` of the manual (NaN equals nothing)
pub fn eq(a: &RVal, b: &RVal) -> bool {
    use RVal::*;
    match (a, b) {
        (Int(x), Int(y)) => x == y,
        (x, y) if x.is_num() && y.is_num() => {
            let (p, q) = (x.f64().unwrap(), y.f64().unwrap());
            p == q
        }
        (Arr(x), Arr(y)) => x.len() == y.len() && x.iter().zip(y).all(|(p, q)| eq(p, q)),
        (Obj(x), Obj(y)) => x.len() == y.len() && x.iter().all(|(k, v)| y.iter().any(|(k2, v2)| eq(k, k2) && eq(v, v2))),
        (Str(x, _), Str(y, _)) => x == y,
        (Null, Null) => true,
        (Bool(x), Bool(y)) => x == y,
        _ => false,
    }
}

/// Structural identity used to compare model and implementation outputs:
/// same representation class, bit-equal floats, same key order, text/bytes distinction.
pub fn same(a: &RVal, b: &RVal) -> bool {
    use RVal::*;
    match (a, b) {
        (Null, Null) => true,
        (Bool(x), Bool(y)) => x == y,
        (Int(x), Int(y)) => x == y,
        (Float(x), Float(y)) => x.to_bits() == y.to_bits() || (x.is_nan() && y.is_nan()),
        (Dec(x), Dec(y)) => x == y,
        (Str(x, p), Str(y, q)) => x == y && p == q,
        (Arr(x), Arr(y)) => x.len() == y.len() && x.iter().zip(y).all(|(p, q)| same(p, q)),
        (Obj(x), Obj(y)) => x.len() == y.len() && x.iter().zip(y).all(|(p, q)| same(&p.0, &q.0) && same(&p.1, &q.1)),
        _ => false,
    }
}

// ---------------------------------------------------------------- arithmetic (#add-sub, #mul-div, #mod)

fn numop(a: &RVal, b: &RVal, fi: impl Fn(&BigInt, &BigInt) -> R, ff: impl Fn(f64, f64) -> f64) -> R {
    match (a, b) {
        (RVal::Int(x), RVal::Int(y)) => fi(x, y),
        _ => Ok(RVal::Float(ff(a.f64().ok_or(())?, b.f64().ok_or(())?))),
    }
}

pub fn obj_get<'a>(o: &'a [(RVal, RVal)], k: &RVal) -> Option<&'a RVal> {
    o.iter().find(|(k2, _)| eq(k, k2)).map(|(_, v)| v)
}

pub fn obj_set(o: &mut Vec<(RVal, RVal)>, k: RVal, v: RVal) {
    match o.iter_mut().find(|(k2, _)| eq(&k, k2)) {
        Some(e) => e.1 = v,
        None => o.push((k, v)),
    }
}

pub fn add(a: &RVal, b: &RVal) -> R {
    use RVal::*;
    match (a, b) {
        (Null, x) | (x, Null) => Ok(x.clone()),
        (x, y) if x.is_num() && y.is_num() => numop(x, y, |p, q| Ok(Int(p + q)), |p, q| p + q),
        (Str(x, p), Str(y, q)) if p == q => Ok(Str([&x[..], &y[..]].concat(), *p)),
        (Arr(x), Arr(y)) => Ok(Arr(x.iter().chain(y.iter()).cloned().collect())),
        (Obj(x), Obj(y)) => {
            let mut o = x.clone();
            for (k, v) in y {
                obj_set(&mut o, k.clone(), v.clone());
            }
            Ok(Obj(o))
        }
        _ => Err(()),
    }
}

pub fn sub(a: &RVal, b: &RVal) -> R {
    use RVal::*;
    match (a, b) {
        (x, y) if x.is_num() && y.is_num() => numop(x, y, |p, q| Ok(Int(p - q)), |p, q| p - q),
        (Arr(x), Arr(y)) => Ok(Arr(x.iter().filter(|e| !y.iter().any(|f| eq(e, f))).cloned().collect())),
        _ => Err(()),
    }
}

fn merge(x: &[(RVal, RVal)], y: &[(RVal, RVal)]) -> Vec<(RVal, RVal)> {
    let mut o = x.to_vec();
    for (k, v) in y {
        let nv = match (obj_get(&o, k), v) {
            (Some(RVal::Obj(l)), RVal::Obj(r)) => RVal::Obj(merge(l, r)),
            _ => v.clone(),
        };
        obj_set(&mut o, k.clone(), nv);
    }
    o
}

pub fn mul(a: &RVal, b: &RVal) -> R {
    use RVal::*;
    match (a, b) {
        (x, y) if x.is_num() && y.is_num() => numop(x, y, |p, q| Ok(Int(p * q)), |p, q| p * q),
        (Str(x, p), Int(n)) | (Int(n), Str(x, p)) => {
            if !n.is_positive() {
                Ok(Null)
            } else {
                let n = n.to_usize().ok_or(())?;
                if n.saturating_mul(x.len()) > (1 << 24) {
                    return Err(()); // resource: outside the model
                }
                Ok(Str(x.repeat(n), *p))
            }
        }
        (Obj(x), Obj(y)) => Ok(Obj(merge(x, y))),
        _ => Err(()),
    }
}

pub fn utf8_chars(b: &[u8]) -> Vec<&[u8]> {
    // positions of a text string: each valid UTF-8 character, each lone invalid byte
    let mut out = Vec::new();
    let mut i = 0;
    while i < b.len() {
        let n = match b[i] {
            0x00..=0x7F => 1,
            0xC2..=0xDF => 2,
            0xE0..=0xEF => 3,
            0xF0..=0xF4 => 4,
            _ => 1,
        };
        let ok = n > 1 && i + n <= b.len() && std::str::from_utf8(&b[i..i + n]).is_ok();
        let n = if n == 1 || ok { n } else { 1 };
        out.push(&b[i..i + n]);
        i += n;
    }
    out
}

pub fn split(x: &[u8], sep: &[u8], bytes: bool) -> Vec<RVal> {
    if x.is_empty() {
        return vec![];
    }
    if sep.is_empty() {
        return utf8_chars(x).into_iter().map(|c| RVal::Str(c.to_vec(), bytes)).collect();
    }
    let mut out = Vec::new();
    let (mut start, mut i) = (0, 0);
    while i + sep.len() <= x.len() {
        if &x[i..i + sep.len()] == sep {
            out.push(RVal::Str(x[start..i].to_vec(), bytes));
            i += sep.len();
            start = i;
        } else {
            i += 1;
        }
    }
    out.push(RVal::Str(x[start..].to_vec(), bytes));
    out
}

pub fn div(a: &RVal, b: &RVal) -> R {
    use RVal::*;
    match (a, b) {
        (x, y) if x.is_num() && y.is_num() => Ok(Float(x.f64().unwrap() / y.f64().unwrap())),
        (Str(x, p), Str(y, q)) if p == q => Ok(Arr(split(x, y, *p))),
        _ => Err(()),
    }
}

pub fn rem(a: &RVal, b: &RVal) -> R {
    use RVal::*;
    match (a, b) {
        (x, y) if x.is_num() && y.is_num() => numop(x, y, |p, q| if q.is_zero() { Err(()) } else { Ok(Int(p % q)) }, |p, q| p % q),
        _ => Err(()),
    }
}

pub fn neg(a: &RVal) -> R {
    match a {
        RVal::Int(i) => Ok(RVal::Int(-i)),
        RVal::Float(f) => Ok(RVal::Float(-f)),
        RVal::Dec(d) => Ok(RVal::Dec(match d.strip_prefix('-') {
            Some(p) => p.to_string(),
            None => format!("-{d}"),
        })),
        _ => Err(()),
    }
}

// ---------------------------------------------------------------- positions (#indexing, #slicing)

pub fn length(a: &RVal) -> R {
    Ok(match a {
        RVal::Null => int(0),
        RVal::Bool(_) => return Err(()),
        RVal::Int(i) => RVal::Int(i.abs()),
        RVal::Float(f) => RVal::Float(f.abs()),
        RVal::Dec(_) => RVal::Float(a.f64().unwrap().abs()),
        RVal::Str(b, false) => int(utf8_chars(b).len() as i64),
        RVal::Str(b, true) => int(b.len() as i64),
        RVal::Arr(x) => int(x.len() as i64),
        RVal::Obj(x) => int(x.len() as i64),
    })
}

/// absolute position of an integer index in a sequence of length `len`; None when outside
fn abs_index(i: &BigInt, len: usize) -> Option<usize> {
    let l = BigInt::from(len);
    let j = if i.is_negative() { i + &l } else { i.clone() };
    if j.is_negative() || j >= l {
        None
    } else {
        j.to_usize()
    }
}

/// clip a slice bound
fn abs_bound(i: Option<&BigInt>, len: usize, default: usize) -> usize {
    match i {
        None => default,
        Some(i) => {
            let l = BigInt::from(len);
            let j = if i.is_negative() { i + &l } else { i.clone() };
            if j.is_negative() {
                0
            } else if j > l {
                len
            } else {
                j.to_usize().unwrap()
            }
        }
    }
}

fn bound(v: Option<&RVal>) -> R<Option<BigInt>> {
    match v {
        None | Some(RVal::Null) => Ok(None),
        Some(RVal::Int(i)) => Ok(Some(i.clone())),
        _ => Err(()),
    }
}

/// (from, upto) positions of `.[x:y]` on a sequence of length len
pub fn slice_pos(len: usize, x: Option<&RVal>, y: Option<&RVal>) -> R<(usize, usize)> {
    let (x, y) = (bound(x)?, bound(y)?);
    let from = abs_bound(x.as_ref(), len, 0);
    let upto = abs_bound(y.as_ref(), len, len);
    Ok((from, upto.max(from)))
}

pub fn slice(a: &RVal, x: Option<&RVal>, y: Option<&RVal>) -> R {
    match a {
        RVal::Arr(v) => {
            let (f, u) = slice_pos(v.len(), x, y)?;
            Ok(RVal::Arr(v[f..u].to_vec()))
        }
        RVal::Str(b, true) => {
            let (f, u) = slice_pos(b.len(), x, y)?;
            Ok(RVal::Str(b[f..u].to_vec(), true))
        }
        RVal::Str(b, false) => {
            let cs = utf8_chars(b);
            let (f, u) = slice_pos(cs.len(), x, y)?;
            Ok(RVal::Str(cs[f..u].concat(), false))
        }
        _ => Err(()),
    }
}

pub fn indices_arr(x: &[RVal], y: &[RVal]) -> RVal {
    if y.is_empty() {
        return RVal::Arr(vec![]);
    }
    let mut out = vec![];
    if x.len() >= y.len() {
        for i in 0..=x.len() - y.len() {
            if x[i..i + y.len()].iter().zip(y).all(|(p, q)| eq(p, q)) {
                out.push(int(i as i64));
            }
        }
    }
    RVal::Arr(out)
}

fn start_end(o: &[(RVal, RVal)]) -> (Option<&RVal>, Option<&RVal>) {
    (obj_get(o, &s("start")), obj_get(o, &s("end")))
}

pub fn index(a: &RVal, i: &RVal) -> R {
    use RVal::*;
    match (a, i) {
        (Null, _) => Ok(Null),
        (Obj(o), k) => Ok(obj_get(o, k).cloned().unwrap_or(Null)),
        (Arr(v), Int(i)) => Ok(abs_index(i, v.len()).map(|j| v[j].clone()).unwrap_or(Null)),
        (Str(b, true), Int(i)) => Ok(abs_index(i, b.len()).map(|j| int(b[j] as i64)).unwrap_or(Null)),
        (Arr(x), Arr(y)) => Ok(indices_arr(x, y)),
        (Arr(_) | Str(..), Obj(o)) => {
            let (st, en) = start_end(o);
            slice(a, st, en)
        }
        _ => Err(()),
    }
}

/// `has($k)`: true exactly when `.[$k]` points into the value
pub fn has(a: &RVal, k: &RVal) -> R<bool> {
    use RVal::*;
    match (a, k) {
        (Null, _) => Ok(false),
        (Obj(o), k) => Ok(obj_get(o, k).is_some()),
        (Arr(v), Int(i)) => Ok(abs_index(i, v.len()).is_some()),
        (Str(b, true), Int(i)) => Ok(abs_index(i, b.len()).is_some()),
        // `.[{start, end}]` is a slice, which always points into the value
        (Arr(_) | Str(..), Obj(_)) => index(a, k).map(|_| true),
        // `.[[...]]` yields the indices of a sub-array (derived data); the property does not decide
        // `has` for it, the model follows the implementation
        (Arr(_), Arr(_)) => Ok(true),
        _ => Err(()),
    }
}

pub fn keys_unsorted(a: &RVal) -> R<Vec<RVal>> {
    match a {
        RVal::Arr(v) => Ok((0..v.len()).map(|i| int(i as i64)).collect()),
        RVal::Obj(o) => Ok(o.iter().map(|(k, _)| k.clone()).collect()),
        _ => Err(()),
    }
}

pub fn values(a: &RVal) -> R<Vec<RVal>> {
    match a {
        RVal::Arr(v) => Ok(v.clone()),
        RVal::Obj(o) => Ok(o.iter().map(|(_, v)| v.clone()).collect()),
        _ => Err(()),
    }
}

pub fn sort(v: &mut [RVal]) {
    v.sort_by(cmp); // stable
}

// ---------------------------------------------------------------- printing (tojson / tostring)

fn esc_byte(out: &mut Vec<u8>, c: u8, bytes: bool) {
    match c {
        0x08 => out.extend(b"\\b"),
        0x0c => out.extend(b"\\f"),
        b'\t' => out.extend(b"\\t"),
        b'\n' => out.extend(b"\\n"),
        b'\r' => out.extend(b"\\r"),
        b'\\' => out.extend(b"\\\\"),
        b'"' => out.extend(b"\\\""),
        0x00..=0x1F | 0x7F => out.extend(if bytes { format!("\\x{c:02x}") } else { format!("\\u{c:04x}") }.as_bytes()),
        0x80..=0xFF if bytes => out.extend(format!("\\x{c:02x}").as_bytes()),
        c => out.push(c),
    }
}

pub fn fmt_f64(f: f64) -> String {
    if f.is_nan() {
        "NaN".into()
    } else if f == f64::INFINITY {
        "Infinity".into()
    } else if f == f64::NEG_INFINITY {
        "-Infinity".into()
    } else {
        // shortest round-trip representation; Rust's {:?} uses the same digits as ryu
        let s = format!("{f:?}");
        s
    }
}

pub fn to_json(v: &RVal, out: &mut Vec<u8>) {
    match v {
        RVal::Null => out.extend(b"null"),
        RVal::Bool(b) => out.extend(if *b { &b"true"[..] } else { &b"false"[..] }),
        RVal::Int(i) => out.extend(i.to_string().as_bytes()),
        RVal::Float(f) => out.extend(fmt_f64(*f).as_bytes()),
        RVal::Dec(d) => out.extend(d.as_bytes()),
        RVal::Str(b, bytes) => {
            if *bytes {
                out.push(b'b');
            }
            out.push(b'"');
            b.iter().for_each(|c| esc_byte(out, *c, *bytes));
            out.push(b'"');
        }
        RVal::Arr(a) => {
            out.push(b'[');
            for (i, x) in a.iter().enumerate() {
                if i > 0 {
                    out.push(b',');
                }
                to_json(x, out);
            }
            out.push(b']');
        }
        RVal::Obj(o) => {
            out.push(b'{');
            for (i, (k, x)) in o.iter().enumerate() {
                if i > 0 {
                    out.push(b',');
                }
                to_json(k, out);
                out.push(b':');
                to_json(x, out);
            }
            out.push(b'}');
        }
    }
}

pub fn json_string(v: &RVal) -> String {
    let mut o = Vec::new();
    to_json(v, &mut o);
    String::from_utf8_lossy(&o).into_owned()
}

pub fn tostring(v: &RVal) -> RVal {
    match v {
        RVal::Str(b, _) => RVal::Str(b.clone(), false),
        _ => {
            let mut o = Vec::new();
            to_json(v, &mut o);
            RVal::Str(o, false)
        }
    }
}

impl std::fmt::Display for RVal {
    fn fmt(&self, f: &mut std::fmt::Formatter) -> std::fmt::Result {
        write!(f, "{}", json_string(self))
    }
}

/// A jq *program text* that evaluates to this value (used to feed values into real jaq
/// without going through its JSON reader). Floats are written so that they stay floats.
pub fn to_jq(v: &RVal) -> String {
    match v {
        RVal::Null | RVal::Bool(_) => json_string(v),
        RVal::Int(i) => {
            if i.is_negative() {
                format!("(-{})", i.abs())
            } else {
                i.to_string()
            }
        }
        RVal::Float(f) => {
            if f.is_nan() {
                "nan".into()
            } else if *f == f64::INFINITY {
                "infinite".into()
            } else if *f == f64::NEG_INFINITY {
                "(-infinite)".into()
            } else if *f == 0.0 && f.is_sign_negative() {
                "(-(0.0+0))".into()
            } else if *f < 0.0 {
                format!("(-({}+0))", fmt_f64_plain(-f))
            } else {
                format!("({}+0)", fmt_f64_plain(*f))
            }
        }
        RVal::Dec(d) => match d.strip_prefix('-') {
            Some(p) => format!("(-{p})"),
            None => d.clone(),
        },
        RVal::Str(b, bytes) => {
            // text with \u escapes for ASCII control chars; raw bytes are valid only if UTF-8
            let mut o = Vec::new();
            o.push(b'"');
            for c in b {
                match c {
                    b'"' => o.extend(b"\\\""),
                    b'\\' => o.extend(b"\\\\"),
                    0x00..=0x1F | 0x7F => o.extend(format!("\\u{c:04x}").as_bytes()),
                    c => o.push(*c),
                }
            }
            o.push(b'"');
            let t = String::from_utf8(o).expect("to_jq needs UTF-8 strings");
            if *bytes {
                format!("({t}|tobytes)")
            } else {
                t
            }
        }
        RVal::Arr(a) => format!("[{}]", a.iter().map(to_jq).collect::<Vec<_>>().join(",")),
        RVal::Obj(o) => {
            if o.is_empty() {
                "{}".into()
            } else {
                format!("({})", o.iter().map(|(k, v)| format!("{{({}):{}}}", to_jq(k), to_jq(v))).collect::<Vec<_>>().join("+"))
            }
        }
    }
}

/// positive finite float as a jq number literal
fn fmt_f64_plain(f: f64) -> String {
    let s = format!("{f:?}");
    s
}
