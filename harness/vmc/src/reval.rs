//! Reference evaluator (E1): a push-style (CPS) definitional interpreter over RTerm,
//! read off the manual's left-to-right semantics. Three modes share the term walk:
//! values, paths (`path(f)` table of advanced.dj#path-based) and updates (#pathless).
//! Environments are name-based persistent lists. Fold sources are lazily memoised lists
//! backed by a coroutine (the only place where a producer must be paused).
use crate::jq::Ev;
use crate::rterm::{DefD, Op, Part, Pat, SP, T};
use crate::rval::{self as rv, RVal};
use std::cell::{Cell, RefCell};
use std::rc::Rc;

// ------------------------------------------------------------------ control

#[derive(Clone, Debug)]
pub enum ErrV {
    /// error raised with a value (`error(v)`): compares by value
    User(RVal),
    /// built-in error: message unspecified by the manual
    Builtin,
    /// the model does not define this construct: case is skipped
    Unsupported(String),
}

#[derive(Clone, Debug)]
pub enum Ctl {
    Cont,
    Err(ErrV),
    Break(u64),
    Halt(i32),
    /// output bound of the harness reached
    Cut,
    /// fuel exhausted (divergence or too much work)
    Fuel,
}

impl Ctl {
    fn is_cont(&self) -> bool {
        matches!(self, Ctl::Cont)
    }
}

macro_rules! go {
    ($e:expr) => {{
        let r = $e;
        if !r.is_cont() {
            return r;
        }
    }};
}

pub const OPAQUE: &str = "§builtin-error§";

/// value with an optional path (Some = paths mode)
#[derive(Clone, Debug)]
pub struct PV {
    pub v: RVal,
    pub p: Option<Rc<PList>>,
}

#[derive(Debug)]
pub enum PList {
    Nil,
    Cons(RVal, Rc<PList>),
}

fn pcons(p: &Rc<PList>, k: RVal) -> Rc<PList> {
    Rc::new(PList::Cons(k, p.clone()))
}

pub fn plist_to_vec(p: &Rc<PList>) -> Vec<RVal> {
    let mut out = vec![];
    let mut cur = p.clone();
    loop {
        let next = match &*cur {
            PList::Nil => break,
            PList::Cons(k, n) => {
                out.push(k.clone());
                n.clone()
            }
        };
        cur = next;
    }
    out.reverse();
    out
}

impl PV {
    pub fn val(v: RVal) -> PV {
        PV { v, p: None }
    }
    fn child(&self, v: RVal, key: impl FnOnce() -> RVal) -> PV {
        PV { v, p: self.p.as_ref().map(|p| pcons(p, key())) }
    }
}

pub type K<'a> = &'a dyn Fn(PV) -> Ctl;
pub type KV<'a> = &'a dyn Fn(RVal) -> Ctl;
pub type U<'a> = &'a dyn Fn(&RVal, KV) -> Ctl;

// ------------------------------------------------------------------ state

pub struct St {
    pub fuel: Cell<u64>,
    pub log: RefCell<Vec<Ev>>,
    labels: Cell<u64>,
    pub inputs: RefCell<Vec<RVal>>,
    pub next_input: Cell<usize>,
    /// a built-in error payload was handed to a `catch` body
    pub opaque: Cell<bool>,
    /// an object entry was deleted by an update (key order afterwards unspecified)
    pub deleted: Cell<bool>,
    pub depth: Cell<usize>,
}

impl St {
    pub fn new(fuel: u64, inputs: Vec<RVal>) -> St {
        St {
            fuel: Cell::new(fuel),
            log: RefCell::new(vec![]),
            labels: Cell::new(0),
            inputs: RefCell::new(inputs),
            next_input: Cell::new(0),
            opaque: Cell::new(false),
            deleted: Cell::new(false),
            depth: Cell::new(0),
        }
    }
    fn fresh(&self) -> u64 {
        let l = self.labels.get() + 1;
        self.labels.set(l);
        l
    }
    fn log(&self, e: Ev) {
        self.log.borrow_mut().push(e)
    }
    fn burn(&self) -> bool {
        let f = self.fuel.get();
        if f == 0 {
            return false;
        }
        self.fuel.set(f - 1);
        true
    }
}

// ------------------------------------------------------------------ environments

#[derive(Clone, Default)]
pub struct Env(Option<Rc<Node>>);

struct Node {
    b: B,
    next: Env,
}

enum B {
    Var(String, RVal),
    Label(String, u64),
    Def(Rc<DefC>),
    Arg(String, Rc<T>, Env),
}

pub struct DefC {
    d: DefD,
    body: Rc<T>,
    env: Env,
}

impl Env {
    fn push(&self, b: B) -> Env {
        Env(Some(Rc::new(Node { b, next: self.clone() })))
    }
    pub fn with_var(&self, name: &str, v: RVal) -> Env {
        self.push(B::Var(name.into(), v))
    }
    pub fn with_defs(&self, defs: &[DefD]) -> Env {
        let mut env = self.clone();
        for d in defs {
            let dc = DefC { d: d.clone(), body: Rc::new(d.body.clone()), env: env.clone() };
            env = env.push(B::Def(Rc::new(dc)));
        }
        env
    }
    fn var(&self, name: &str) -> Option<RVal> {
        let mut cur = self;
        while let Some(n) = &cur.0 {
            if let B::Var(x, v) = &n.b {
                if x == name {
                    return Some(v.clone());
                }
            }
            cur = &n.next;
        }
        None
    }
    fn label(&self, name: &str) -> Option<u64> {
        let mut cur = self;
        while let Some(n) = &cur.0 {
            if let B::Label(x, l) = &n.b {
                if x == name {
                    return Some(*l);
                }
            }
            cur = &n.next;
        }
        None
    }
    fn fun(&self, name: &str, arity: usize) -> Option<&B> {
        let mut cur = self;
        while let Some(n) = &cur.0 {
            match &n.b {
                B::Def(dc) if dc.d.name == name && dc.d.args.len() == arity => return Some(&n.b),
                B::Arg(x, ..) if x == name && arity == 0 => return Some(&n.b),
                _ => {}
            }
            cur = &n.next;
        }
        None
    }
}

/// The reference prelude: jq text transcribed from the manual (docs/stdlib.dj, docs/corelang.dj),
/// not read from /repo/*/defs.jq.
pub const PRELUDE: &str = r#"
def not: if . then false else true end;
def select(f): if f then . else empty end;
def tostring: "\(.)";
def while(p; f): def rec: if p then ., (f | rec) else empty end; rec;
def until(p; f): def rec: if p then . else f | rec end; rec;
def range($from; $to; $by): $from |
   if $by > 0 then while(.  < $to; . + $by)
 elif $by < 0 then while(.  > $to; . + $by)
   else            while(. != $to; . + $by)
   end;
def range($from; $to): range($from; $to; 1);
def range($to): range(0; $to);
def repeat(f): def rec: f, rec; rec;
def recurse(f): def rec: ., (f | rec); rec;
def recurse: recurse(.[]?);
def recurse(f; p): recurse(f | select(p));
def isempty(f): first((f | false), true);
def nth($i; f): first(skip($i; f));
def nth($i): .[$i];
def first: .[0];
def last: .[-1];
def any(f; p): isempty(f | p or empty) | not;
def all(f; p): isempty(f | p and empty);
def any(p): any(.[]; p);
def all(p): all(.[]; p);
def any: any(.);
def all: all(.);
def add(f): reduce f as $x (null; . + $x);
def add: add(.[]);
def map(f): [.[] | f];
def map_values(f): .[] |= f;
def del(f): f |= empty;
def to_entries: [keys_unsorted[] as $k | {key: $k, value: .[$k]}];
def from_entries: reduce .[] as $x ({}; . + {($x.key): $x.value});
def with_entries(f): to_entries | map(f) | from_entries;
def getpath($path): reduce $path[] as $p (.; .[$p]);
def paths: skip(1; path(..));
def paths(p): paths as $path | if getpath($path) | p then $path else empty end;
def setpath($path; $x): getpath($path) = $x;
def delpaths($paths): reduce $paths[] as $path (.; getpath($path) |= empty);
def walk(f): def rec: (.[]? |= rec) | f; rec;
def isboolean: type == "boolean";
def isnumber: type == "number";
def isstring: type == "string";
def isarray: type == "array";
def isobject: type == "object";
def values: select(. != null);
def keys: keys_unsorted | sort;
"#;

pub fn prelude_env() -> Env {
    let defs = crate::rterm::parse_defs_with_jaq(PRELUDE).expect("reference prelude parses");
    Env::default().with_defs(&defs)
}

// ------------------------------------------------------------------ helpers

fn builtin() -> Ctl {
    Ctl::Err(ErrV::Builtin)
}

fn r2c(r: rv::R, k: KV) -> Ctl {
    match r {
        Ok(v) => k(v),
        Err(()) => builtin(),
    }
}

fn parse_num(n: &str) -> RVal {
    if n.bytes().all(|c| c.is_ascii_digit()) {
        RVal::Int(n.parse().unwrap())
    } else {
        RVal::Dec(n.to_string())
    }
}

fn range_obj(x: Option<&RVal>, y: Option<&RVal>) -> RVal {
    let mut o = vec![];
    if let Some(x) = x {
        o.push((rv::s("start"), x.clone()));
    }
    if let Some(y) = y {
        o.push((rv::s("end"), y.clone()));
    }
    RVal::Obj(o)
}

/// evaluated path part
#[derive(Clone, Debug)]
enum EP {
    Index(RVal),
    Range(Option<RVal>, Option<RVal>),
}

// ------------------------------------------------------------------ lazily memoised source list

type Coro = generator::LocalGenerator<'static, (), Option<Box<dyn std::any::Any>>>;

thread_local! {
    /// finished coroutines (their stacks are reused: creating a stack costs two system calls)
    static CORO_POOL: RefCell<Vec<Coro>> = RefCell::new(Vec::new());
}

struct Lazy<A: 'static> {
    items: RefCell<Vec<A>>,
    end: RefCell<Option<Ctl>>,
    gen: RefCell<Option<Coro>>,
}

impl<A: Clone + 'static> Lazy<A> {
    /// `produce(emit)` must call `emit(item)` for every element and return the final control value
    fn new(produce: impl FnOnce(&dyn Fn(A) -> Ctl) -> Ctl + 'static) -> Rc<Self> {
        let me = Rc::new(Lazy { items: RefCell::new(vec![]), end: RefCell::new(None), gen: RefCell::new(None) });
        let weak = Rc::downgrade(&me);
        fn body<A: Clone + 'static>(
            produce: impl FnOnce(&dyn Fn(A) -> Ctl) -> Ctl + 'static,
            weak: std::rc::Weak<Lazy<A>>,
        ) -> impl for<'s, 'b> FnOnce(generator::Scope<'s, 'b, (), Option<Box<dyn std::any::Any>>>) -> Option<Box<dyn std::any::Any>> + 'static {
            move |mut s| {
                let sp: *mut generator::Scope<'_, '_, (), Option<Box<dyn std::any::Any>>> = &mut s;
                let r = produce(&|a| {
                    // SAFETY: `s` outlives this closure; the coroutine is single-threaded
                    unsafe { (*sp).yield_with(Some(Box::new(a) as Box<dyn std::any::Any>)) };
                    Ctl::Cont
                });
                if let Some(me) = weak.upgrade() {
                    *me.end.borrow_mut() = Some(r);
                }
                None
            }
        }
        let body = body(produce, weak);
        let g = match CORO_POOL.with(|p| p.borrow_mut().pop()) {
            Some(mut g) => {
                g.scoped_init(body);
                g
            }
            None => generator::Gn::<()>::new_scoped_opt_local(0x80000, body),
        };
        *me.gen.borrow_mut() = Some(g);
        me
    }
    /// eager variant (no coroutine) for sources that are finite and free of effects
    fn eager(produce: impl FnOnce(&dyn Fn(A) -> Ctl) -> Ctl) -> Rc<Self> {
        let items = RefCell::new(vec![]);
        let r = produce(&|a| {
            items.borrow_mut().push(a);
            Ctl::Cont
        });
        Rc::new(Lazy { items, end: RefCell::new(Some(r)), gen: RefCell::new(None) })
    }
    /// i-th element, or the terminal control value of the producer (Cont = regular end)
    fn get(&self, i: usize) -> Result<A, Ctl> {
        loop {
            if let Some(a) = self.items.borrow().get(i) {
                return Ok(a.clone());
            }
            if let Some(e) = &*self.end.borrow() {
                return Err(e.clone());
            }
            let next = self.gen.borrow_mut().as_mut().and_then(|g| g.resume());
            match next {
                Some(Some(a)) => self.items.borrow_mut().push(*a.downcast::<A>().expect("item type")),
                _ => {
                    if self.end.borrow().is_none() {
                        *self.end.borrow_mut() = Some(Ctl::Cont);
                    }
                    // keep the finished coroutine's stack for reuse
                    if let Some(g) = self.gen.borrow_mut().take() {
                        if g.is_done() {
                            CORO_POOL.with(|p| {
                                let mut p = p.borrow_mut();
                                if p.len() < 64 {
                                    p.push(g)
                                }
                            });
                        }
                    }
                }
            }
        }
    }
}

impl<A> Drop for Lazy<A> {
    fn drop(&mut self) {
        // an unfinished coroutine is cancelled (its stack is unwound) by generator's Drop
        self.gen.borrow_mut().take();
    }
}

// ------------------------------------------------------------------ the evaluator

pub struct M<'s> {
    pub st: &'s St,
}

const MAX_DEPTH: usize = 400;

impl<'s> M<'s> {
    fn vals(&self, t: &T, env: &Env, v: &RVal, k: KV) -> Ctl {
        self.eval(t, env, &PV::val(v.clone()), &|pv| k(pv.v))
    }

    /// Run with a continuation whose non-Cont result must pass through enclosing
    /// `try`/`label`/`first` of the evaluated term untouched.
    fn shielded(&self, k: K, run: impl FnOnce(K) -> Ctl, handle: impl FnOnce(Ctl) -> Ctl) -> Ctl {
        let id = self.st.fresh();
        let saved: RefCell<Option<Ctl>> = RefCell::new(None);
        let r = run(&|pv| {
            let r = k(pv);
            if r.is_cont() {
                r
            } else {
                *saved.borrow_mut() = Some(r);
                Ctl::Break(id)
            }
        });
        match r {
            Ctl::Break(i) if i == id => saved.into_inner().unwrap(),
            r => handle(r),
        }
    }

    /// stop `f` after `n` outputs (n >= 1)
    fn take_n(&self, n: &num_bigint::BigInt, run: impl FnOnce(K) -> Ctl, k: K) -> Ctl {
        let id = self.st.fresh();
        let left = RefCell::new(n.clone());
        let saved: RefCell<Option<Ctl>> = RefCell::new(None);
        let r = run(&|pv| {
            let r = k(pv);
            if !r.is_cont() {
                *saved.borrow_mut() = Some(r);
                return Ctl::Break(id);
            }
            let mut l = left.borrow_mut();
            *l -= 1;
            if *l <= num_bigint::BigInt::from(0) {
                *saved.borrow_mut() = Some(Ctl::Cont);
                return Ctl::Break(id);
            }
            Ctl::Cont
        });
        match r {
            Ctl::Break(i) if i == id => saved.into_inner().unwrap(),
            r => r,
        }
    }

    pub fn eval(&self, t: &T, env: &Env, pv: &PV, k: K) -> Ctl {
        if !self.st.burn() || too_big(&pv.v) {
            return Ctl::Fuel;
        }
        let d = self.st.depth.get();
        if d > MAX_DEPTH {
            return Ctl::Fuel;
        }
        self.st.depth.set(d + 1);
        let r = self.eval_(t, env, pv, k);
        self.st.depth.set(d);
        r
    }

    fn eval_(&self, t: &T, env: &Env, pv: &PV, k: K) -> Ctl {
        let paths = pv.p.is_some();
        let kv = |v: RVal| k(PV::val(v));
        match t {
            T::Id => k(pv.clone()),
            T::Recurse => self.recurse(pv, k),
            T::Num(_) | T::Str(..) | T::Arr(_) | T::Obj(_) | T::Neg(_) if paths => builtin(),
            T::Num(n) => kv(parse_num(n)),
            T::Str(fmt, parts) => self.string(fmt.as_deref(), parts, 0, Vec::new(), env, &pv.v, &kv),
            T::Arr(None) => kv(RVal::Arr(vec![])),
            T::Arr(Some(f)) => {
                let out = RefCell::new(vec![]);
                go!(self.vals(f, env, &pv.v, &|v| {
                    out.borrow_mut().push(v);
                    Ctl::Cont
                }));
                kv(RVal::Arr(out.into_inner()))
            }
            T::Obj(kvs) => self.object(kvs, 0, vec![], env, &pv.v, &kv),
            T::Neg(f) => self.vals(f, env, &pv.v, &|v| r2c(rv::neg(&v), &kv)),
            T::Bin(l, op, r) => self.bin(l, op, r, env, pv, k),
            T::As(l, pat, r) => self.vals(l, env, &pv.v, &|y| self.bind_pat(pat, &y, env, env, &|env2| self.eval(r, &env2, pv, k))),
            T::Label(x, f) => {
                let id = self.st.fresh();
                let env2 = env.push(B::Label(x.clone(), id));
                match self.eval(f, &env2, pv, k) {
                    Ctl::Break(i) if i == id => Ctl::Cont,
                    r => r,
                }
            }
            T::Break(x) => match env.label(x) {
                Some(id) => Ctl::Break(id),
                None => Ctl::Err(ErrV::Unsupported(format!("unbound label {x}"))),
            },
            T::Fold(name, xs, pat, args) => self.fold(name, xs, pat, args, env, pv, k),
            T::Try(f, c) => self.shielded(
                k,
                |k2| self.eval(f, env, pv, k2),
                |r| match r {
                    Ctl::Err(ErrV::Unsupported(u)) => Ctl::Err(ErrV::Unsupported(u)),
                    Ctl::Err(e) => match c {
                        None => Ctl::Cont,
                        Some(c) => {
                            let payload = match e {
                                ErrV::User(v) => v,
                                _ => {
                                    self.st.opaque.set(true);
                                    rv::s(OPAQUE)
                                }
                            };
                            if paths {
                                // try path(f) catch (g | error)
                                self.vals(c, env, &payload, &|v| Ctl::Err(ErrV::User(v)))
                            } else {
                                self.vals(c, env, &payload, &kv)
                            }
                        }
                    },
                    r => r,
                },
            ),
            T::If(its, els) => self.ite(its, 0, els.as_deref(), env, pv, k),
            T::Def(defs, body) => self.eval(body, &env.with_defs(defs), pv, k),
            T::Call(name, args) => self.call(name, args, env, pv, k),
            T::Var(x) => match env.var(x) {
                Some(_) if paths => builtin(),
                Some(v) => kv(v),
                None => Ctl::Err(ErrV::Unsupported(format!("unbound variable {x}"))),
            },
            T::Path(head, parts) => {
                // f[x][y:z]  ==  f as $f | x as $x | y as $y | z as $z | $f | .[$x] | .[$y:$z]
                self.eval(head, env, pv, &|fv| self.path_parts(parts, 0, vec![], env, &pv.v, &|eps| self.apply_parts(eps, parts, 0, &fv, k)))
            }
        }
    }

    fn recurse(&self, pv: &PV, k: K) -> Ctl {
        if !self.st.burn() {
            return Ctl::Fuel;
        }
        go!(k(pv.clone()));
        match &pv.v {
            RVal::Arr(a) => {
                for (i, x) in a.iter().enumerate() {
                    go!(self.recurse(&pv.child(x.clone(), || rv::int(i as i64)), k));
                }
            }
            RVal::Obj(o) => {
                for (key, x) in o {
                    go!(self.recurse(&pv.child(x.clone(), || key.clone()), k));
                }
            }
            _ => {}
        }
        Ctl::Cont
    }

    // "a\(f)b" == "a" + (f | tostring) + "b": earlier interpolations are the outer loops
    fn string(&self, fmt: Option<&str>, parts: &[SP], i: usize, acc: Vec<u8>, env: &Env, v: &RVal, k: KV) -> Ctl {
        match parts.get(i) {
            None => k(RVal::Str(acc, false)),
            Some(SP::S(s)) => {
                let mut acc = acc;
                acc.extend(s.as_bytes());
                self.string(fmt, parts, i + 1, acc, env, v, k)
            }
            Some(SP::I(f)) => self.vals(f, env, v, &|y| {
                let piece = match fmt {
                    None | Some("@text") => rv::tostring(&y),
                    Some("@json") => RVal::Str(rv::json_string(&y).into_bytes(), false),
                    Some(o) => return Ctl::Err(ErrV::Unsupported(format!("format {o}"))),
                };
                let mut acc = acc.clone();
                if let RVal::Str(b, _) = piece {
                    acc.extend(b);
                }
                self.string(fmt, parts, i + 1, acc, env, v, k)
            }),
        }
    }

    // {(k1): v1, (k2): v2} == {(k1): v1} + {(k2): v2}; {(k): v} == k as $k | v as $v | {$k: $v}
    fn object(&self, kvs: &[(T, Option<T>)], i: usize, acc: Vec<(RVal, RVal)>, env: &Env, v: &RVal, k: KV) -> Ctl {
        let Some((kt, vt)) = kvs.get(i) else { return k(RVal::Obj(acc)) };
        let with_kv = |key: RVal, val: RVal| {
            let mut acc = acc.clone();
            rv::obj_set(&mut acc, key, val);
            self.object(kvs, i + 1, acc, env, v, k)
        };
        match (kt, vt) {
            (T::Var(x), None) => match env.var(x) {
                Some(val) => with_kv(rv::s(&x[1..]), val),
                None => Ctl::Err(ErrV::Unsupported(format!("unbound variable {x}"))),
            },
            (kt, None) => self.vals(kt, env, v, &|key| r2c(rv::index(v, &key), &|val| with_kv(key.clone(), val))),
            (kt, Some(vt)) => self.vals(kt, env, v, &|key| self.vals(vt, env, v, &|val| with_kv(key.clone(), val))),
        }
    }

    fn bin(&self, l: &T, op: &Op, r: &T, env: &Env, pv: &PV, k: K) -> Ctl {
        let paths = pv.p.is_some();
        let v = &pv.v;
        let kv = |x: RVal| k(PV::val(x));
        match op {
            Op::Pipe => self.eval(l, env, pv, &|y| self.eval(r, env, &y, k)),
            Op::Comma => {
                go!(self.eval(l, env, pv, k));
                self.eval(r, env, pv, k)
            }
            Op::Alt if paths => {
                // path(if first(f // false) then f else g end)
                let first: RefCell<Option<RVal>> = RefCell::new(None);
                let alt = T::Bin(Box::new(l.clone()), Op::Alt, Box::new(T::Call("false".into(), vec![])));
                go!(self.take_n(&1.into(), |k2| self.vals(&alt, env, v, &|y| k2(PV::val(y))), &|y| {
                    *first.borrow_mut() = Some(y.v);
                    Ctl::Cont
                }));
                let c = first.into_inner().map_or(false, |y| y.truthy());
                self.eval(if c { l } else { r }, env, pv, k)
            }
            Op::Alt => {
                let seen = Cell::new(false);
                go!(self.vals(l, env, v, &|y| {
                    if y.truthy() {
                        seen.set(true);
                        kv(y)
                    } else {
                        Ctl::Cont
                    }
                }));
                if seen.get() {
                    Ctl::Cont
                } else {
                    self.vals(r, env, v, &kv)
                }
            }
            _ if paths => builtin(),
            Op::Or | Op::And => {
                let stop = *op == Op::Or;
                self.vals(l, env, v, &|x| {
                    if x.truthy() == stop {
                        kv(RVal::Bool(stop))
                    } else {
                        self.vals(r, env, v, &|y| kv(RVal::Bool(y.truthy())))
                    }
                })
            }
            Op::Math(c) => self.vals(l, env, v, &|x| self.vals(r, env, v, &|y| r2c(math(*c, &x, &y), &kv))),
            Op::Cmp(c) => self.vals(l, env, v, &|x| {
                self.vals(r, env, v, &|y| {
                    let o = rv::cmp(&x, &y);
                    use std::cmp::Ordering::*;
                    kv(RVal::Bool(match *c {
                        "<" => o == Less,
                        "<=" => o != Greater,
                        ">" => o == Greater,
                        ">=" => o != Less,
                        "==" => rv::eq(&x, &y),
                        _ => !rv::eq(&x, &y),
                    }))
                })
            }),
            Op::Update => self.upd(l, env, v, &|x, k2| self.vals(r, env, x, k2), &kv),
            // f = g, f op= g: g is run on the original input, once per output
            Op::Assign => self.vals(r, env, v, &|y| self.upd(l, env, v, &|_, k2| k2(y.clone()), &kv)),
            Op::UpdateMath(c) => self.vals(r, env, v, &|y| self.upd(l, env, v, &|x, k2| r2c(math(*c, x, &y), k2), &kv)),
            Op::UpdateAlt => self.vals(r, env, v, &|y| self.upd(l, env, v, &|x, k2| k2(if x.truthy() { x.clone() } else { y.clone() }), &kv)),
        }
    }

    fn ite(&self, its: &[(T, T)], i: usize, els: Option<&T>, env: &Env, pv: &PV, k: K) -> Ctl {
        match its.get(i) {
            None => match els {
                Some(e) => self.eval(e, env, pv, k),
                None => k(pv.clone()),
            },
            Some((c, t)) => self.vals(c, env, &pv.v, &|b| if b.truthy() { self.eval(t, env, pv, k) } else { self.ite(its, i + 1, els, env, pv, k) }),
        }
    }

    /// bind a pattern against `v`; key filters run in `env0` (the environment of the `as`) on
    /// the value matched by their parent pattern
    fn bind_pat(&self, pat: &Pat, v: &RVal, env0: &Env, env: &Env, k: &dyn Fn(Env) -> Ctl) -> Ctl {
        match pat {
            Pat::Var(x) => k(env.with_var(x, v.clone())),
            Pat::Arr(ps) => self.bind_entries(&ps.iter().enumerate().map(|(i, p)| (None, Some(i), p)).collect::<Vec<_>>(), 0, v, env0, env, k),
            Pat::Obj(es) => self.bind_entries(&es.iter().map(|(kt, p)| (Some(kt), None, p)).collect::<Vec<_>>(), 0, v, env0, env, k),
        }
    }

    fn bind_entries(&self, es: &[(Option<&T>, Option<usize>, &Pat)], i: usize, v: &RVal, env0: &Env, env: &Env, k: &dyn Fn(Env) -> Ctl) -> Ctl {
        let Some((kt, ki, p)) = es.get(i) else { return k(env.clone()) };
        let with_key = |key: RVal| match rv::index(v, &key) {
            Ok(sub) => self.bind_pat(p, &sub, env0, env, &|env2| self.bind_entries(es, i + 1, v, env0, &env2, k)),
            Err(()) => builtin(),
        };
        match (kt, ki) {
            (Some(kt), _) => self.vals(kt, env0, v, &with_key),
            (None, Some(i)) => with_key(rv::int(*i as i64)),
            _ => unreachable!(),
        }
    }

    fn fold(&self, name: &str, xs: &T, pat: &Pat, args: &[T], env: &Env, pv: &PV, k: K) -> Ctl {
        let (init, update, proj) = match (name, args) {
            ("reduce", [i, u]) => (i, u, None),
            ("foreach", [i, u]) => (i, u, Some(None)),
            ("foreach", [i, u, p]) => (i, u, Some(Some(p))),
            _ => return Ctl::Err(ErrV::Unsupported("fold arity".into())),
        };
        let src = self.source(xs, pat, env, &pv.v);
        self.eval(init, env, pv, &|acc| self.fold_from(&src, 0, update, proj, &acc, k))
    }

    /// lazily memoised list of environments bound by `xs as pat`
    fn source(&self, xs: &T, pat: &Pat, env: &Env, v: &RVal) -> Rc<Lazy<Env>> {
        if is_simple(xs) && pat_simple(pat) {
            return Lazy::eager(|emit| self.vals(xs, env, v, &|y| self.bind_pat(pat, &y, env, env, &|e| emit(e))));
        }
        let (xs, pat, env, v) = (xs.clone(), pat.clone(), env.clone(), v.clone());
        // SAFETY of the 'static requirement: the coroutine only runs while `self.st` is alive
        // (it is resumed from `get`, called below with `self` borrowed) — we pass a raw pointer.
        let stp = self.st as *const St;
        Lazy::new(move |emit| {
            let m = M { st: unsafe { &*stp } };
            m.vals(&xs, &env, &v, &|y| m.bind_pat(&pat, &y, &env, &env, &|e| emit(e)))
        })
    }

    /// init | x1 as $x | update | (project, (x2 as $x | update | ...))
    fn fold_from(&self, src: &Rc<Lazy<Env>>, i: usize, update: &T, proj: Option<Option<&T>>, acc: &PV, k: K) -> Ctl {
        if !self.st.burn() {
            return Ctl::Fuel;
        }
        match src.get(i) {
            Err(Ctl::Cont) => match proj {
                None => k(acc.clone()),
                Some(_) => Ctl::Cont,
            },
            Err(c) => c,
            Ok(envx) => self.eval(update, &envx, acc, &|y| {
                match proj {
                    None => {}
                    Some(None) => go!(k(y.clone())),
                    Some(Some(p)) => go!(self.eval(p, &envx, &y, k)),
                }
                self.fold_from(src, i + 1, update, proj, &y, k)
            }),
        }
    }

    fn path_parts(&self, parts: &[(Part, bool)], i: usize, acc: Vec<EP>, env: &Env, v: &RVal, k: &dyn Fn(&[EP]) -> Ctl) -> Ctl {
        let Some((p, _)) = parts.get(i) else { return k(&acc) };
        let next = |ep: EP| {
            let mut acc = acc.clone();
            acc.push(ep);
            self.path_parts(parts, i + 1, acc, env, v, k)
        };
        match p {
            Part::Index(t) => self.vals(t, env, v, &|x| next(EP::Index(x))),
            Part::Range(None, None) => next(EP::Range(None, None)),
            Part::Range(Some(x), None) => self.vals(x, env, v, &|x| next(EP::Range(Some(x), None))),
            Part::Range(None, Some(y)) => self.vals(y, env, v, &|y| next(EP::Range(None, Some(y)))),
            Part::Range(Some(x), Some(y)) => self.vals(x, env, v, &|x| self.vals(y, env, v, &|y| next(EP::Range(Some(x.clone()), Some(y))))),
        }
    }

    fn apply_parts(&self, eps: &[EP], parts: &[(Part, bool)], i: usize, pv: &PV, k: K) -> Ctl {
        let Some(ep) = eps.get(i) else { return k(pv.clone()) };
        let opt = parts[i].1;
        let fail = || if opt { Ctl::Cont } else { builtin() };
        match ep {
            EP::Index(x) => match rv::index(&pv.v, x) {
                Ok(y) => self.apply_parts(eps, parts, i + 1, &pv.child(y, || x.clone()), k),
                Err(()) => fail(),
            },
            EP::Range(None, None) => match (rv::keys_unsorted(&pv.v), rv::values(&pv.v)) {
                (Ok(ks), Ok(vs)) => {
                    for (key, y) in ks.into_iter().zip(vs) {
                        go!(self.apply_parts(eps, parts, i + 1, &pv.child(y, || key), k));
                    }
                    Ctl::Cont
                }
                _ => fail(),
            },
            EP::Range(x, y) => match rv::slice(&pv.v, x.as_ref(), y.as_ref()) {
                Ok(s) => self.apply_parts(eps, parts, i + 1, &pv.child(s, || range_obj(x.as_ref(), y.as_ref())), k),
                Err(()) => fail(),
            },
        }
    }

    // -------------------------------------------------------------- calls

    fn call(&self, name: &str, args: &[T], env: &Env, pv: &PV, k: K) -> Ctl {
        match env.fun(name, args.len()) {
            Some(B::Arg(_, t, cenv)) => {
                let (t, cenv) = (t.clone(), cenv.clone());
                self.eval(&t, &cenv, pv, k)
            }
            Some(B::Def(dc)) => {
                let dc = dc.clone();
                self.call_def(&dc, args, env, pv, &|env2| self.eval(&dc.body, &env2, pv, k))
            }
            _ => self.native(name, args, env, pv, k),
        }
    }

    /// bind the parameters of a definition; `$x` parameters loop over the outputs of the argument
    /// (`def f($x): g` == `def f(x): x as $x | g`), leftmost outermost
    fn call_def(&self, dc: &Rc<DefC>, args: &[T], env: &Env, pv: &PV, k: &dyn Fn(Env) -> Ctl) -> Ctl {
        let base = dc.env.push(B::Def(dc.clone()));
        self.bind_params(&dc.d.args, args, 0, env, &base, &pv.v, k)
    }

    fn bind_params(&self, params: &[String], args: &[T], i: usize, cenv: &Env, env: &Env, v: &RVal, k: &dyn Fn(Env) -> Ctl) -> Ctl {
        let Some(p) = params.get(i) else { return k(env.clone()) };
        if p.starts_with('$') {
            self.vals(&args[i], cenv, v, &|y| {
                let e = env.with_var(p, y);
                self.bind_params(params, args, i + 1, cenv, &e, v, k)
            })
        } else {
            let e = env.push(B::Arg(p.clone(), Rc::new(args[i].clone()), cenv.clone()));
            self.bind_params(params, args, i + 1, cenv, &e, v, k)
        }
    }

    fn native(&self, name: &str, args: &[T], env: &Env, pv: &PV, k: K) -> Ctl {
        let paths = pv.p.is_some();
        let v = &pv.v;
        let kv = |x: RVal| k(PV::val(x));
        let no_path = || -> Option<Ctl> { paths.then(builtin) };
        macro_rules! value_only {
            () => {
                if let Some(c) = no_path() {
                    return c;
                }
            };
        }
        match (name, args) {
            ("empty", []) => Ctl::Cont,
            ("error", []) => Ctl::Err(ErrV::User(v.clone())),
            ("error", [f]) => self.vals(f, env, v, &|y| Ctl::Err(ErrV::User(y))),
            ("true", []) => {
                value_only!();
                kv(RVal::Bool(true))
            }
            ("false", []) => {
                value_only!();
                kv(RVal::Bool(false))
            }
            ("null", []) => {
                value_only!();
                kv(RVal::Null)
            }
            ("tick", [f]) => self.vals(f, env, v, &|n| {
                self.st.log(Ev::Tick(tick_id(&n)));
                k(pv.clone())
            }),
            ("bomb", []) => {
                // the harness native has no path implementation: it fails without running
                value_only!();
                self.st.log(Ev::Bomb);
                Ctl::Err(ErrV::User(rv::s(crate::jq::BOMB_MSG)))
            }
            ("input", []) => {
                value_only!();
                match self.pull() {
                    Some(x) => kv(x),
                    None => Ctl::Cont,
                }
            }
            ("inputs", []) => {
                value_only!();
                while let Some(x) = self.pull() {
                    go!(kv(x));
                }
                Ctl::Cont
            }
            ("halt", [f]) => {
                value_only!();
                self.vals(f, env, v, &|c| match &c {
                    RVal::Int(i) => match num_traits::ToPrimitive::to_i32(i) {
                        Some(c) => Ctl::Halt(c),
                        None => builtin(),
                    },
                    _ => builtin(),
                })
            }
            ("halt", []) => Ctl::Halt(0),
            ("first", [f]) => self.take_n(&1.into(), |k2| self.eval(f, env, pv, k2), k),
            ("limit", [n, f]) => self.vals(n, env, v, &|n| match &n {
                // `$n <= 0` yields nothing; any non-number is greater than 0 in the value order
                n if rv::cmp(n, &rv::int(0)) != std::cmp::Ordering::Greater => Ctl::Cont,
                RVal::Int(n) => self.take_n(n, |k2| self.eval(f, env, pv, k2), k),
                RVal::Float(x) if x.is_finite() || *x > 0.0 => {
                    // n.5 outputs round up: the counter is decremented while > 0
                    let n = if x.is_finite() { num_bigint::BigInt::from(x.ceil() as i64) } else { num_bigint::BigInt::from(i64::MAX) };
                    self.take_n(&n, |k2| self.eval(f, env, pv, k2), k)
                }
                _ => Ctl::Err(ErrV::Unsupported("limit with a non-numeric count".into())),
            }),
            ("skip", [n, f]) => self.vals(n, env, v, &|n| match &n {
                n if rv::cmp(n, &rv::int(0)) != std::cmp::Ordering::Greater => self.eval(f, env, pv, k),
                RVal::Int(n) => {
                    let left = RefCell::new(n.clone());
                    self.eval(f, env, pv, &|y| {
                        let mut l = left.borrow_mut();
                        if *l > 0.into() {
                            *l -= 1;
                            Ctl::Cont
                        } else {
                            drop(l);
                            k(y)
                        }
                    })
                }
                _ => Ctl::Err(ErrV::Unsupported("skip with a non-integer count".into())),
            }),
            ("last", [f]) => {
                let last: RefCell<Option<PV>> = RefCell::new(None);
                go!(self.eval(f, env, pv, &|y| {
                    *last.borrow_mut() = Some(y);
                    Ctl::Cont
                }));
                match last.into_inner() {
                    Some(y) => k(y),
                    None => Ctl::Cont,
                }
            }
            ("path", [f]) => {
                value_only!();
                let start = PV { v: v.clone(), p: Some(Rc::new(PList::Nil)) };
                self.eval(f, env, &start, &|y| kv(RVal::Arr(plist_to_vec(y.p.as_ref().unwrap()))))
            }
            ("path_value", [f]) => {
                value_only!();
                let start = PV { v: v.clone(), p: Some(Rc::new(PList::Nil)) };
                self.eval(f, env, &start, &|y| kv(RVal::Arr(vec![RVal::Arr(plist_to_vec(y.p.as_ref().unwrap())), y.v.clone()])))
            }
            (_, []) => {
                value_only!();
                let r = match name {
                    "length" => rv::length(v),
                    "keys_unsorted" => rv::keys_unsorted(v).map(RVal::Arr),
                    "type" => Ok(rv::s(v.type_name())),
                    "tojson" => Ok(rv::s(&rv::json_string(v))),
                    "sort" => match v {
                        RVal::Arr(a) => {
                            let mut a = a.clone();
                            rv::sort(&mut a);
                            Ok(RVal::Arr(a))
                        }
                        _ => Err(()),
                    },
                    "tobytes" => match v {
                        RVal::Str(b, _) => Ok(RVal::Str(b.clone(), true)),
                        _ => return Ctl::Err(ErrV::Unsupported("tobytes of non-string".into())),
                    },
                    "infinite" => Ok(RVal::Float(f64::INFINITY)),
                    "nan" => Ok(RVal::Float(f64::NAN)),
                    _ => return Ctl::Err(ErrV::Unsupported(format!("{name}/0"))),
                };
                r2c(r, &kv)
            }
            ("has", [f]) => {
                value_only!();
                self.vals(f, env, v, &|key| match rv::has(v, &key) {
                    Ok(b) => kv(RVal::Bool(b)),
                    Err(()) => builtin(),
                })
            }
            _ => Ctl::Err(ErrV::Unsupported(format!("{name}/{}", args.len()))),
        }
    }

    fn pull(&self) -> Option<RVal> {
        let i = self.st.next_input.get();
        let x = self.st.inputs.borrow().get(i).cloned();
        match &x {
            Some(_) => {
                self.st.log(Ev::Pull(Some(i)));
                self.st.next_input.set(i + 1);
            }
            None => self.st.log(Ev::Pull(None)),
        }
        x
    }

    // -------------------------------------------------------------- updates (advanced.dj#pathless)

    /// `v | (t |= u)`
    pub fn upd(&self, t: &T, env: &Env, v: &RVal, u: U, k: KV) -> Ctl {
        if !self.st.burn() || too_big(v) {
            return Ctl::Fuel;
        }
        let d = self.st.depth.get();
        if d > MAX_DEPTH {
            return Ctl::Fuel;
        }
        self.st.depth.set(d + 1);
        let r = self.upd_(t, env, v, u, k);
        self.st.depth.set(d);
        r
    }

    fn upd_(&self, t: &T, env: &Env, v: &RVal, u: U, k: KV) -> Ctl {
        match t {
            T::Id => u(v, k),
            // def rec_up: (.[]? | rec_up), .; rec_up |= u
            T::Recurse => self.rec_up(v, u, k),
            T::Bin(l, Op::Pipe, r) => self.upd(l, env, v, &|x, k2| self.upd(r, env, x, u, k2), k),
            T::Bin(l, Op::Comma, r) => self.upd(l, env, v, u, &|y| self.upd(r, env, &y, u, k)),
            T::Bin(l, Op::Alt, r) => {
                let first: RefCell<Option<RVal>> = RefCell::new(None);
                let alt = T::Bin(Box::new((**l).clone()), Op::Alt, Box::new(T::Call("false".into(), vec![])));
                go!(self.take_n(&1.into(), |k2| self.vals(&alt, env, v, &|y| k2(PV::val(y))), &|y| {
                    *first.borrow_mut() = Some(y.v);
                    Ctl::Cont
                }));
                let c = first.into_inner().map_or(false, |y| y.truthy());
                self.upd(if c { l } else { r }, env, v, u, k)
            }
            // (f as $x | g) |= u  ==  (f1 as $x | g) |= u | ... | (fn as $x | g) |= u
            T::As(l, pat, r) => {
                let src = self.source(l, pat, env, v);
                self.upd_chain(&src, 0, r, v, u, k)
            }
            // if p then f else g end  ==  p as $p | if $p then f else g end
            T::If(its, els) => self.upd_ite(its, 0, els.as_deref(), env, v, u, k),
            T::Def(defs, body) => self.upd(body, &env.with_defs(defs), v, u, k),
            T::Call(name, args) => match env.fun(name, args.len()) {
                Some(B::Arg(_, t, cenv)) => {
                    let (t, cenv) = (t.clone(), cenv.clone());
                    self.upd(&t, &cenv, v, u, k)
                }
                Some(B::Def(dc)) => {
                    let dc = dc.clone();
                    // variable parameters behave like `as` bindings: chained updates
                    let envs = RefCell::new(vec![]);
                    go!(self.call_def(&dc, args, env, &PV::val(v.clone()), &|e| {
                        envs.borrow_mut().push(e);
                        Ctl::Cont
                    }));
                    let envs = envs.into_inner();
                    self.upd_envs(&envs, 0, &dc.body, v, u, k)
                }
                _ => match (name.as_str(), &args[..]) {
                    ("empty", []) => k(v.clone()),
                    ("error", []) => Ctl::Err(ErrV::User(v.clone())),
                    ("error", [f]) => {
                        // (msgs | error_empty) as $x | .
                        go!(self.vals(f, env, v, &|y| Ctl::Err(ErrV::User(y))));
                        k(v.clone())
                    }
                    ("tick", [f]) => self.vals(f, env, v, &|n| {
                        self.st.log(Ev::Tick(tick_id(&n)));
                        u(v, k)
                    }),
                    ("first" | "last" | "limit" | "skip" | "path" | "path_value" | "true" | "false" | "null" | "length" | "keys_unsorted" | "type" | "tojson" | "sort" | "has" | "input" | "inputs" | "bomb", _) => builtin(),
                    _ => Ctl::Err(ErrV::Unsupported(format!("update of {name}/{}", args.len()))),
                },
            },
            T::Path(head, parts) => {
                // indices are evaluated on the original input; every combination updates in turn:
                // (x1 as $x | f[$x]) |= u | (x2 as $x | f[$x]) |= u | ...
                let simple = parts.iter().all(|(p, _)| match p {
                    Part::Index(i) => is_simple(i),
                    Part::Range(x, y) => x.as_ref().map_or(true, is_simple) && y.as_ref().map_or(true, is_simple),
                });
                let src: Rc<Lazy<Vec<EP>>> = if simple {
                    Lazy::eager(|emit| self.path_parts(parts, 0, vec![], env, v, &|eps| emit(eps.to_vec())))
                } else {
                    let (parts2, env2, v2) = (parts.clone(), env.clone(), v.clone());
                    let stp = self.st as *const St;
                    Lazy::new(move |emit| {
                        let m = M { st: unsafe { &*stp } };
                        m.path_parts(&parts2, 0, vec![], &env2, &v2, &|eps| emit(eps.to_vec()))
                    })
                };
                self.upd_combos(&src, 0, head, env, parts, v, u, k)
            }
            T::Fold(name, xs, pat, args) => {
                let (init, update, proj) = match (name.as_str(), &args[..]) {
                    ("reduce", [i, u]) => (i, u, None),
                    ("foreach", [i, u]) => (i, u, Some(None)),
                    ("foreach", [i, u, p]) => (i, u, Some(Some(p))),
                    _ => return Ctl::Err(ErrV::Unsupported("fold arity".into())),
                };
                let src = self.source(xs, pat, env, v);
                self.upd(init, env, v, &|x, k2| self.upd_fold(&src, 0, update, proj, x, u, k2), k)
            }
            T::Var(x) => match env.var(x) {
                Some(_) => builtin(),
                None => Ctl::Err(ErrV::Unsupported(format!("unbound variable {x}"))),
            },
            T::Break(x) => match env.label(x) {
                Some(id) => Ctl::Break(id),
                None => Ctl::Err(ErrV::Unsupported("unbound label".into())),
            },
            // value-constructing expressions, and try/label (which jaq documents as unsupported)
            _ => builtin(),
        }
    }

    fn rec_up(&self, v: &RVal, u: U, k: KV) -> Ctl {
        if !self.st.burn() {
            return Ctl::Fuel;
        }
        // (.[]? | rec_up) |= u  ==  .[]? |= (rec_up |= u) ; then . |= u
        self.iter_upd(v, true, &|x, k2| self.rec_up(x, u, k2), &|y| u(&y, k))
    }

    fn upd_chain(&self, src: &Rc<Lazy<Env>>, i: usize, r: &T, v: &RVal, u: U, k: KV) -> Ctl {
        match src.get(i) {
            Err(Ctl::Cont) => k(v.clone()),
            Err(c) => c,
            Ok(e) => self.upd(r, &e, v, u, &|y| self.upd_chain(src, i + 1, r, &y, u, k)),
        }
    }

    fn upd_envs(&self, envs: &[Env], i: usize, body: &T, v: &RVal, u: U, k: KV) -> Ctl {
        match envs.get(i) {
            None => k(v.clone()),
            Some(e) => self.upd(body, e, v, u, &|y| self.upd_envs(envs, i + 1, body, &y, u, k)),
        }
    }

    fn upd_ite(&self, its: &[(T, T)], i: usize, els: Option<&T>, env: &Env, v: &RVal, u: U, k: KV) -> Ctl {
        match its.get(i) {
            None => match els {
                Some(e) => self.upd(e, env, v, u, k),
                None => u(v, k),
            },
            Some((c, t)) => {
                // conditions are evaluated on the original input; outputs chain like bindings
                let conds = RefCell::new(vec![]);
                go!(self.vals(c, env, v, &|b| {
                    conds.borrow_mut().push(b.truthy());
                    Ctl::Cont
                }));
                let conds = conds.into_inner();
                self.upd_conds(&conds, 0, its, i, t, els, env, v, u, k)
            }
        }
    }

    #[allow(clippy::too_many_arguments)]
    fn upd_conds(&self, conds: &[bool], j: usize, its: &[(T, T)], i: usize, t: &T, els: Option<&T>, env: &Env, v: &RVal, u: U, k: KV) -> Ctl {
        match conds.get(j) {
            None => k(v.clone()),
            Some(true) => self.upd(t, env, v, u, &|y| self.upd_conds(conds, j + 1, its, i, t, els, env, &y, u, k)),
            Some(false) => self.upd_ite(its, i + 1, els, env, v, u, &|y| self.upd_conds(conds, j + 1, its, i, t, els, env, &y, u, k)),
        }
    }

    #[allow(clippy::too_many_arguments)]
    fn upd_combos(&self, src: &Rc<Lazy<Vec<EP>>>, i: usize, head: &T, env: &Env, parts: &[(Part, bool)], v: &RVal, u: U, k: KV) -> Ctl {
        match src.get(i) {
            Err(Ctl::Cont) => k(v.clone()),
            Err(c) => c,
            Ok(eps) => self.upd(head, env, v, &|x, k2| self.upd_parts(&eps, parts, 0, x, u, k2), &|y| self.upd_combos(src, i + 1, head, env, parts, &y, u, k)),
        }
    }

    fn upd_parts(&self, eps: &[EP], parts: &[(Part, bool)], i: usize, v: &RVal, u: U, k: KV) -> Ctl {
        let Some(ep) = eps.get(i) else { return u(v, k) };
        let opt = parts[i].1;
        let inner: U = &|x, k2| self.upd_parts(eps, parts, i + 1, x, u, k2);
        match ep {
            EP::Index(x) => self.index_upd(v, x, opt, inner, k),
            EP::Range(None, None) => self.iter_upd(v, opt, inner, k),
            EP::Range(x, y) => self.slice_upd(v, x.as_ref(), y.as_ref(), opt, inner, k),
        }
    }

    // init |= ((x1 as $x | update | (project, rest)) |= u)
    fn upd_fold(&self, src: &Rc<Lazy<Env>>, i: usize, update: &T, proj: Option<Option<&T>>, v: &RVal, u: U, k: KV) -> Ctl {
        match src.get(i) {
            Err(Ctl::Cont) => match proj {
                None => u(v, k),
                Some(_) => k(v.clone()),
            },
            Err(c) => c,
            Ok(e) => self.upd(
                update,
                &e,
                v,
                &|y, k2| match proj {
                    None => self.upd_fold(src, i + 1, update, proj, y, u, k2),
                    Some(None) => u(y, &|z| self.upd_fold(src, i + 1, update, proj, &z, u, k2)),
                    Some(Some(p)) => self.upd(p, &e, y, u, &|z| self.upd_fold(src, i + 1, update, proj, &z, u, k2)),
                },
                k,
            ),
        }
    }

    /// first output of `u` on `x` (None = no output)
    fn first_of(&self, x: &RVal, u: U) -> Result<Option<RVal>, Ctl> {
        let out: RefCell<Option<RVal>> = RefCell::new(None);
        let r = self.take_n(&1.into(), |k2| u(x, &|y| k2(PV::val(y))), &|y| {
            *out.borrow_mut() = Some(y.v);
            Ctl::Cont
        });
        if r.is_cont() {
            Ok(out.into_inner())
        } else {
            Err(r)
        }
    }

    /// iter_upd(u; fail)
    fn iter_upd(&self, v: &RVal, opt: bool, u: U, k: KV) -> Ctl {
        match v {
            RVal::Arr(a) => {
                let out = RefCell::new(vec![]);
                for x in a {
                    go!(u(x, &|y| {
                        out.borrow_mut().push(y);
                        Ctl::Cont
                    }));
                }
                k(RVal::Arr(out.into_inner()))
            }
            RVal::Obj(o) => {
                let mut out = vec![];
                for (key, x) in o {
                    match self.first_of(x, u) {
                        Ok(Some(y)) => out.push((key.clone(), y)),
                        Ok(None) => self.st.deleted.set(true),
                        Err(c) => return c,
                    }
                }
                k(RVal::Obj(out))
            }
            _ if opt => k(v.clone()),
            _ => builtin(),
        }
    }

    /// index_upd($i; u; fail)
    fn index_upd(&self, v: &RVal, i: &RVal, opt: bool, u: U, k: KV) -> Ctl {
        let fail = || if opt { k(v.clone()) } else { builtin() };
        match (v, i) {
            (RVal::Arr(_) | RVal::Str(..), RVal::Obj(o)) => self.slice_upd(v, rv::obj_get(o, &rv::s("start")), rv::obj_get(o, &rv::s("end")), opt, u, k),
            (RVal::Arr(a), RVal::Int(_)) => match rv::has(v, i) {
                Ok(true) => {
                    let len = a.len() as i64;
                    let j = num_traits::ToPrimitive::to_i64(match i {
                        RVal::Int(i) => i,
                        _ => unreachable!(),
                    })
                    .unwrap();
                    let j = (if j < 0 { j + len } else { j }) as usize;
                    match self.first_of(&a[j], u) {
                        Ok(y) => {
                            let mut a = a.clone();
                            match y {
                                Some(y) => a[j] = y,
                                None => {
                                    a.remove(j);
                                }
                            }
                            k(RVal::Arr(a))
                        }
                        Err(c) => c,
                    }
                }
                _ => fail(),
            },
            (RVal::Obj(o), key) => {
                let old = rv::obj_get(o, key).cloned();
                match self.first_of(old.as_ref().unwrap_or(&RVal::Null), u) {
                    Ok(y) => {
                        let mut o = o.clone();
                        match (y, old.is_some()) {
                            (Some(y), _) => rv::obj_set(&mut o, key.clone(), y),
                            (None, true) => {
                                o.retain(|(k2, _)| !rv::eq(k2, key));
                                self.st.deleted.set(true);
                            }
                            (None, false) => {}
                        }
                        k(RVal::Obj(o))
                    }
                    Err(c) => c,
                }
            }
            _ => fail(),
        }
    }

    /// slice_upd($i; $j; u; fail)
    fn slice_upd(&self, v: &RVal, x: Option<&RVal>, y: Option<&RVal>, opt: bool, u: U, k: KV) -> Ctl {
        let fail = || if opt { k(v.clone()) } else { builtin() };
        let splice = |len: usize| -> Option<(usize, usize)> { rv::slice_pos(len, x, y).ok() };
        match v {
            RVal::Arr(a) => {
                let Some((f, t)) = splice(a.len()) else { return fail() };
                match self.first_of(&RVal::Arr(a[f..t].to_vec()), u) {
                    Ok(None) => k(RVal::Arr([&a[..f], &a[t..]].concat())),
                    Ok(Some(RVal::Arr(m))) => k(RVal::Arr([&a[..f], &m[..], &a[t..]].concat())),
                    Ok(Some(_)) => builtin(),
                    Err(c) => c,
                }
            }
            RVal::Str(b, bytes) => {
                let units: Vec<&[u8]> = if *bytes { b.chunks(1).collect() } else { rv::utf8_chars(b) };
                let Some((f, t)) = splice(units.len()) else { return fail() };
                let pre = units[..f].concat();
                let mid = units[f..t].concat();
                let post = units[t..].concat();
                match self.first_of(&RVal::Str(mid, *bytes), u) {
                    Ok(None) => k(RVal::Str([pre, post].concat(), *bytes)),
                    Ok(Some(RVal::Str(m, mb))) if mb == *bytes => k(RVal::Str([pre, m, post].concat(), *bytes)),
                    Ok(Some(_)) => builtin(),
                    Err(c) => c,
                }
            }
            _ => fail(),
        }
    }
}

/// finite, effect-free terms (no calls to definitions, no recursion, no effect natives):
/// evaluating them eagerly is indistinguishable from evaluating them on demand
fn is_simple(t: &T) -> bool {
    match t {
        T::Id | T::Num(_) | T::Var(_) | T::Arr(None) | T::Break(_) => true,
        T::Recurse | T::Def(..) | T::Fold(..) | T::Label(..) => false,
        T::Str(_, parts) => parts.iter().all(|p| match p {
            SP::S(_) => true,
            SP::I(t) => is_simple(t),
        }),
        T::Arr(Some(f)) | T::Neg(f) => is_simple(f),
        T::Obj(kvs) => kvs.iter().all(|(k, v)| is_simple(k) && v.as_ref().map_or(true, is_simple)),
        T::Bin(l, _, r) => is_simple(l) && is_simple(r),
        T::As(l, p, r) => is_simple(l) && pat_simple(p) && is_simple(r),
        T::Try(f, c) => is_simple(f) && c.as_ref().map_or(true, |c| is_simple(c)),
        T::If(its, e) => its.iter().all(|(c, t)| is_simple(c) && is_simple(t)) && e.as_ref().map_or(true, |e| is_simple(e)),
        T::Call(n, a) => matches!(n.as_str(), "empty" | "error" | "null" | "true" | "false" | "length" | "type" | "keys_unsorted" | "tojson" | "has") && a.iter().all(is_simple),
        T::Path(h, parts) => {
            is_simple(h)
                && parts.iter().all(|(p, _)| match p {
                    Part::Index(i) => is_simple(i),
                    Part::Range(x, y) => x.as_ref().map_or(true, is_simple) && y.as_ref().map_or(true, is_simple),
                })
        }
    }
}

/// values beyond this many nodes are outside the model's scope (the case is reported as undecided)
const MAX_NODES: usize = 600;

fn too_big(v: &RVal) -> bool {
    fn go(v: &RVal, left: &mut usize) -> bool {
        if *left == 0 {
            return true;
        }
        *left -= 1;
        match v {
            RVal::Arr(a) => a.iter().any(|x| go(x, left)),
            RVal::Obj(o) => o.iter().any(|(k, x)| go(k, left) || go(x, left)),
            RVal::Str(b, _) => {
                let n = b.len() / 16;
                if n >= *left {
                    true
                } else {
                    *left -= n;
                    false
                }
            }
            _ => false,
        }
    }
    matches!(v, RVal::Arr(_) | RVal::Obj(_) | RVal::Str(..)) && go(v, &mut { MAX_NODES })
}

fn pat_simple(p: &Pat) -> bool {
    match p {
        Pat::Var(_) => true,
        Pat::Arr(ps) => ps.iter().all(pat_simple),
        Pat::Obj(es) => es.iter().all(|(k, p)| is_simple(k) && pat_simple(p)),
    }
}

fn tick_id(n: &RVal) -> i64 {
    match n {
        RVal::Int(i) => num_traits::ToPrimitive::to_i64(i).unwrap_or(-999),
        _ => -999,
    }
}

fn math(c: char, x: &RVal, y: &RVal) -> rv::R {
    match c {
        '+' => rv::add(x, y),
        '-' => rv::sub(x, y),
        '*' => rv::mul(x, y),
        '/' => rv::div(x, y),
        _ => rv::rem(x, y),
    }
}

// ------------------------------------------------------------------ top level

pub struct Outcome {
    pub trace: Vec<Ev>,
    /// the model could not decide this case (unsupported construct / fuel)
    pub undecided: Option<String>,
    pub opaque: bool,
    pub deleted: bool,
}

/// Run the reference evaluator, producing the event trace (ticks, pulls, outputs, terminal event).
pub fn run_model(t: &T, env: &Env, input: &RVal, inputs: Vec<RVal>, max: usize, fuel: u64) -> Outcome {
    let st = St::new(fuel, inputs);
    let m = M { st: &st };
    let n = Cell::new(0usize);
    let r = if max == 0 {
        Ctl::Cut
    } else {
        m.eval(t, env, &PV::val(input.clone()), &|pv| {
            st.log(Ev::Out(pv.v));
            n.set(n.get() + 1);
            if n.get() >= max {
                Ctl::Cut
            } else {
                Ctl::Cont
            }
        })
    };
    let mut undecided = None;
    let end = match r {
        Ctl::Cont => Ev::End,
        Ctl::Cut => Ev::Cut,
        Ctl::Halt(c) => Ev::Halt(c),
        Ctl::Err(ErrV::User(v)) => Ev::Err(v),
        Ctl::Err(ErrV::Builtin) => Ev::Err(rv::s(OPAQUE)),
        Ctl::Err(ErrV::Unsupported(u)) => {
            undecided = Some(u);
            Ev::End
        }
        Ctl::Fuel => {
            undecided = Some("fuel".into());
            Ev::End
        }
        Ctl::Break(_) => {
            undecided = Some("stray break".into());
            Ev::End
        }
    };
    let mut trace = std::mem::take(&mut *st.log.borrow_mut());
    trace.push(end);
    Outcome { trace, undecided, opaque: st.opaque.get(), deleted: st.deleted.get() }
}
