//! Access to the real implementation (library API of /repo), plus harness natives.
use crate::rval::RVal;
use jaq_all::data::{Ctx, Data, DataKind, Filter, Runner};
use jaq_all::jaq_core::load::parse::Def;
use jaq_all::jaq_core::{self, native::Fun, Bind, Exn, Native, Vars};
use jaq_all::jaq_std::input::RcIter;
use jaq_all::json::{Num, Val};
use num_bigint::BigInt;
use std::cell::RefCell;
use std::collections::{BTreeMap, BTreeSet};

pub type F = Filter;

// ------------------------------------------------------------------ value conversion

pub fn to_rval(v: &Val) -> RVal {
    match v {
        Val::Null => RVal::Null,
        Val::Bool(b) => RVal::Bool(*b),
        Val::Num(Num::Int(i)) => RVal::Int(BigInt::from(*i as i64)),
        Val::Num(Num::BigInt(i)) => RVal::Int((**i).clone()),
        Val::Num(Num::Float(f)) => RVal::Float(*f),
        Val::Num(Num::Dec(d)) => RVal::Dec((**d).clone()),
        Val::BStr(b) => RVal::Str(b.to_vec(), true),
        Val::TStr(b) => RVal::Str(b.to_vec(), false),
        Val::Arr(a) => RVal::Arr(a.iter().map(to_rval).collect()),
        Val::Obj(o) => RVal::Obj(o.iter().map(|(k, v)| (to_rval(k), to_rval(v))).collect()),
    }
}

/// representation class of every number in a Val (to detect Int vs BigInt storage)
pub fn is_bigint_repr(v: &Val) -> bool {
    matches!(v, Val::Num(Num::BigInt(_)))
}

pub fn to_val(v: &RVal) -> Val {
    match v {
        RVal::Null => Val::Null,
        RVal::Bool(b) => Val::Bool(*b),
        RVal::Int(i) => Val::Num(Num::from_integral_big(i)),
        RVal::Float(f) => Val::Num(Num::Float(*f)),
        RVal::Dec(d) => Val::Num(Num::Dec(d.clone().into())),
        RVal::Str(b, true) => Val::byte_str(b.clone()),
        RVal::Str(b, false) => Val::utf8_str(b.clone()),
        RVal::Arr(a) => a.iter().map(to_val).collect(),
        RVal::Obj(o) => Val::obj(o.iter().map(|(k, v)| (to_val(k), to_val(v))).collect()),
    }
}

/// like to_val, but every integer is stored as a big integer (representation independence)
pub fn to_val_big(v: &RVal) -> Val {
    match v {
        RVal::Int(i) => Val::Num(Num::big_int(i.clone())),
        RVal::Arr(a) => a.iter().map(to_val_big).collect(),
        RVal::Obj(o) => Val::obj(o.iter().map(|(k, v)| (to_val_big(k), to_val_big(v))).collect()),
        v => to_val(v),
    }
}

trait FromBig {
    fn from_integral_big(i: &BigInt) -> Num;
}
impl FromBig for Num {
    fn from_integral_big(i: &BigInt) -> Num {
        use num_traits::ToPrimitive;
        match i.to_isize() {
            Some(x) => Num::Int(x),
            None => Num::big_int(i.clone()),
        }
    }
}

// ------------------------------------------------------------------ events

#[derive(Clone, Debug)]
pub enum Ev {
    Tick(i64),
    /// consumption of the i-th input value (0-based); None = input stream found exhausted
    Pull(Option<usize>),
    Bomb,
    Out(RVal),
    /// error with payload as observed through `catch` (value or message)
    Err(RVal),
    Halt(i32),
    End,
    /// the consumer stopped here (output bound reached)
    Cut,
    Panic(String),
}

thread_local! {
    pub static LOG: RefCell<Vec<Ev>> = RefCell::new(Vec::new());
}

pub fn log(e: Ev) {
    LOG.with(|l| l.borrow_mut().push(e));
}
pub fn take_log() -> Vec<Ev> {
    LOG.with(|l| std::mem::take(&mut *l.borrow_mut()))
}

pub const BOMB_MSG: &str = "§bomb§";

fn as_i64(v: &Val) -> i64 {
    match v {
        Val::Num(Num::Int(i)) => *i as i64,
        _ => -999,
    }
}

/// Harness natives: `tick($n)` identity with a logged effect (valid in paths and updates),
/// `bomb` logs and raises a distinguished error.
pub fn harness_funs() -> Vec<Fun<DataKind>> {
    use jaq_core::box_iter::box_once;
    let tick: Native<DataKind> = Native::new(|mut cv| {
        let n = cv.0.pop_var();
        log(Ev::Tick(as_i64(&n)));
        box_once(Ok(cv.1))
    })
    .with_paths(|mut cv| {
        let n = cv.0.pop_var();
        log(Ev::Tick(as_i64(&n)));
        box_once(Ok(cv.1))
    })
    .with_update(|mut cv, f| {
        let n = cv.0.pop_var();
        log(Ev::Tick(as_i64(&n)));
        f(cv.1)
    });
    let bomb: Native<DataKind> = Native::new(|_cv| {
        log(Ev::Bomb);
        box_once(Err(Exn::from(jaq_core::Error::new(Val::from(BOMB_MSG.to_string())))))
    });
    vec![("tick", [Bind::Var(())].into(), tick), ("bomb", [].into(), bomb)]
}

// ------------------------------------------------------------------ compilation

pub struct DefDb {
    /// (name, arity, def, deps) in source order
    defs: Vec<(String, usize, Def<&'static str>, BTreeSet<String>)>,
}

fn calls_in(dbg: &str) -> BTreeSet<String> {
    // names of all calls in the Debug rendering of a term: `Call("name", [`
    let mut out = BTreeSet::new();
    let mut rest = dbg;
    while let Some(i) = rest.find("Call(\"") {
        rest = &rest[i + 6..];
        if let Some(j) = rest.find('"') {
            out.insert(rest[..j].to_string());
        }
    }
    out
}

impl DefDb {
    fn new() -> DefDb {
        let defs = jaq_all::defs()
            .map(|d| {
                let deps = calls_in(&format!("{:?}", d.body));
                (d.name.to_string(), d.args.len(), d, deps)
            })
            .collect();
        DefDb { defs }
    }
    /// all definitions transitively needed by the given names, in source order
    pub fn closure(&self, names: &BTreeSet<String>) -> Vec<Def<&'static str>> {
        let mut need = names.clone();
        loop {
            let mut add = BTreeSet::new();
            for (n, _, _, deps) in &self.defs {
                if need.contains(n) {
                    for d in deps {
                        if !need.contains(d) {
                            add.insert(d.clone());
                        }
                    }
                }
            }
            if add.is_empty() {
                break;
            }
            need.extend(add);
        }
        self.defs.iter().filter(|(n, ..)| need.contains(n)).map(|(_, _, d, _)| d.clone()).collect()
    }
    pub fn all_named(&self) -> Vec<(String, usize)> {
        self.defs.iter().map(|(n, a, ..)| (n.clone(), *a)).collect()
    }
}

pub fn defdb() -> &'static DefDb {
    static DB: std::sync::OnceLock<DefDb> = std::sync::OnceLock::new();
    DB.get_or_init(DefDb::new)
}

fn idents(code: &str) -> BTreeSet<String> {
    let mut out = BTreeSet::new();
    let mut cur = String::new();
    for c in code.chars().chain(std::iter::once(' ')) {
        if c.is_ascii_alphanumeric() || c == '_' || c == '@' {
            cur.push(c);
        } else if !cur.is_empty() {
            out.insert(std::mem::take(&mut cur));
        }
    }
    out
}

fn render_errs(errs: Vec<jaq_all::load::FileReports>) -> String {
    errs.iter().map(|e| format!("{}", jaq_all::load::FileReportsDisp::new(e))).collect::<Vec<_>>().join("\n")
}

/// Compile with the complete prelude and all natives (plus the harness natives).
pub fn compile_full(code: &str, vars: &[&str]) -> Result<F, String> {
    let vars: Vec<String> = vars.iter().map(|s| s.to_string()).collect();
    let funs = jaq_all::data::funs().chain(harness_funs());
    jaq_all::compile_with(code, jaq_all::defs(), funs, &vars).map_err(render_errs)
}

/// Compile with only those prelude definitions the program text can reference
/// (an order of magnitude faster for small programs; same natives).
pub fn compile(code: &str, vars: &[&str]) -> Result<F, String> {
    let vars: Vec<String> = vars.iter().map(|s| s.to_string()).collect();
    let defs = defdb().closure(&idents(code));
    let funs = jaq_all::data::funs().chain(harness_funs());
    jaq_all::compile_with(code, defs.into_iter(), funs, &vars).map_err(render_errs)
}

// ------------------------------------------------------------------ running

pub fn exn_to_ev(e: Exn<'_, Val>) -> Ev {
    match e.get_err() {
        Ok(err) => Ev::Err(to_rval(&err.into_val())),
        Err(e) => match e.get_halt() {
            Ok(c) => Ev::Halt(c),
            Err(e) => Ev::Panic(format!("internal exception escaped: {e:?}")),
        },
    }
}

pub fn panic_msg(p: Box<dyn std::any::Any + Send>) -> String {
    p.downcast_ref::<&str>().map(|s| s.to_string()).or_else(|| p.downcast_ref::<String>().cloned()).unwrap_or_else(|| "panic".into())
}

pub fn quiet_panics() {
    std::panic::set_hook(Box::new(|_| {}));
}

/// Run `f` on `input`, pulling at most `max` outputs one by one. Returns the complete
/// interleaved event trace (ticks, input pulls, outputs, terminal event).
pub fn run_trace(f: &F, input: Val, vars: Vec<Val>, inputs: Vec<Val>, max: usize) -> Vec<Ev> {
    take_log();
    let r = std::panic::catch_unwind(std::panic::AssertUnwindSafe(|| {
        let runner = Runner::default();
        let n = inputs.len();
        let mut it = inputs.into_iter().enumerate();
        let inputs_it = Box::new(std::iter::from_fn(move || match it.next() {
            Some((i, v)) => {
                log(Ev::Pull(Some(i)));
                Some(Ok::<Val, String>(v))
            }
            None => {
                let _ = n;
                log(Ev::Pull(None));
                None
            }
        }));
        let rc = RcIter::new(inputs_it as Box<dyn Iterator<Item = Result<Val, String>>>);
        let data = Data { runner: &runner, lut: &f.lut, inputs: &rc };
        let ctx = Ctx::new(&data, Vars::new(vars));
        let mut out = f.id.run((ctx, input));
        let mut k = 0;
        loop {
            if k >= max {
                log(Ev::Cut);
                break;
            }
            match out.next() {
                None => {
                    log(Ev::End);
                    break;
                }
                Some(Ok(v)) => {
                    log(Ev::Out(to_rval(&v)));
                    k += 1;
                }
                Some(Err(e)) => {
                    log(exn_to_ev(e));
                    break;
                }
            }
        }
    }));
    let mut evs = take_log();
    if let Err(p) = r {
        evs.push(Ev::Panic(panic_msg(p)));
    }
    evs
}

/// Outputs only (no inputs, no vars).
pub fn run_simple(f: &F, input: Val, max: usize) -> Vec<Ev> {
    run_trace(f, input, vec![], vec![], max)
}

/// Run and return raw Vals (for checks that need representation details).
pub fn run_vals(f: &F, input: Val, vars: Vec<Val>, max: usize) -> Result<Vec<Result<Val, Ev>>, String> {
    std::panic::catch_unwind(std::panic::AssertUnwindSafe(|| {
        let runner = Runner::default();
        let inputs_it: Box<dyn Iterator<Item = Result<Val, String>>> = Box::new(std::iter::empty());
        let rc = RcIter::new(inputs_it);
        let data = Data { runner: &runner, lut: &f.lut, inputs: &rc };
        let ctx = Ctx::new(&data, Vars::new(vars));
        let mut res = Vec::new();
        for y in f.id.run((ctx, input)).take(max) {
            match y {
                Ok(v) => res.push(Ok(v)),
                Err(e) => {
                    res.push(Err(exn_to_ev(e)));
                    break;
                }
            }
        }
        res
    }))
    .map_err(panic_msg)
}

/// Evaluate a law: the filter must output exactly `true` once. Anything else is described.
pub fn law_holds(f: &F, input: Val, vars: Vec<Val>) -> Result<(), String> {
    match run_vals(f, input, vars, 3) {
        Err(p) => Err(format!("panic: {p}")),
        Ok(outs) => {
            if outs.len() == 1 {
                if let Ok(Val::Bool(true)) = &outs[0] {
                    return Ok(());
                }
            }
            Err(format!(
                "law output: {:?}",
                outs.iter().map(|o| match o {
                    Ok(v) => format!("{v}"),
                    Err(e) => ev_json(e).to_string(),
                }).collect::<Vec<_>>()
            ))
        }
    }
}

pub fn ev_json(e: &Ev) -> serde_json::Value {
    use serde_json::json;
    match e {
        Ev::Tick(n) => json!({"tick": n}),
        Ev::Pull(i) => json!({"pull": i}),
        Ev::Bomb => json!("bomb"),
        Ev::Out(v) => json!({"out": v.to_string()}),
        Ev::Err(v) => json!({"err": v.to_string()}),
        Ev::Halt(c) => json!({"halt": c}),
        Ev::End => json!("end"),
        Ev::Cut => json!("cut"),
        Ev::Panic(s) => json!({"panic": s}),
    }
}

pub fn trace_json(t: &[Ev]) -> serde_json::Value {
    serde_json::Value::Array(t.iter().map(ev_json).collect())
}

#[allow(dead_code)]
pub fn unused(_: BTreeMap<u8, u8>) {}
