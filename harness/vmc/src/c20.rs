//! C20 — date and time filters agree with the proleptic Gregorian calendar.
use crate::ev::{h64, Counts, Run, Tier};
use crate::jq;
use crate::rval::{self as rv, RVal};
use jaq_all::json::Val;
use rayon::prelude::*;
use serde_json::json;

const E: &str = "§E§";

// ------------------------------------------------------------------ independent calendar model
// days-from-civil / civil-from-days (era arithmetic, proleptic Gregorian)

pub fn days_from_civil(y: i64, m: i64, d: i64) -> i64 {
    let y = if m <= 2 { y - 1 } else { y };
    let era = if y >= 0 { y } else { y - 399 } / 400;
    let yoe = y - era * 400;
    let mp = (m + 9) % 12;
    let doy = (153 * mp + 2) / 5 + d - 1;
    let doe = yoe * 365 + yoe / 4 - yoe / 100 + doy;
    era * 146097 + doe - 719468
}

pub fn civil_from_days(z: i64) -> (i64, i64, i64) {
    let z = z + 719468;
    let era = if z >= 0 { z } else { z - 146096 } / 146097;
    let doe = z - era * 146097;
    let yoe = (doe - doe / 1460 + doe / 36524 - doe / 146096) / 365;
    let y = yoe + era * 400;
    let doy = doe - (365 * yoe + yoe / 4 - yoe / 100);
    let mp = (5 * doy + 2) / 153;
    let d = doy - (153 * mp + 2) / 5 + 1;
    let m = if mp < 10 { mp + 3 } else { mp - 9 };
    (if m <= 2 { y + 1 } else { y }, m, d)
}

fn is_leap(y: i64) -> bool {
    (y % 4 == 0 && y % 100 != 0) || y % 400 == 0
}

fn days_in_month(y: i64, m: i64) -> i64 {
    match m {
        1 | 3 | 5 | 7 | 8 | 10 | 12 => 31,
        4 | 6 | 9 | 11 => 30,
        _ => {
            if is_leap(y) {
                29
            } else {
                28
            }
        }
    }
}

/// broken-down UTC time of an integer epoch: [y, m-1, d, H, M, S, weekday from Sunday, yearday from 0]
pub fn model_gmtime(t: i64) -> [i64; 8] {
    let days = t.div_euclid(86400);
    let sod = t.rem_euclid(86400);
    let (y, m, d) = civil_from_days(days);
    let wd = (days + 4).rem_euclid(7); // 1970-01-01 was a Thursday
    let yd = days - days_from_civil(y, 1, 1);
    [y, m - 1, d, sod / 3600, sod % 3600 / 60, sod % 60, wd, yd]
}

fn model_iso(t: i64) -> Option<String> {
    let g = model_gmtime(t);
    if !(0..=9999).contains(&g[0]) {
        return None;
    }
    Some(format!("{:04}-{:02}-{:02}T{:02}:{:02}:{:02}Z", g[0], g[1] + 1, g[2], g[3], g[4], g[5]))
}

const FORMATS: &[&str] = &["%Y-%m-%dT%H:%M:%SZ", "%F %T", "%Y %j %H:%M:%S", "%s", "%a %b %e %T %Y"];

fn bdt(g: &[i64; 8]) -> RVal {
    RVal::Arr(g.iter().map(|x| rv::int(*x)).collect())
}

/// is `f` the instant `s` seconds + `us` microseconds, to the microsecond (or to the precision of a double)?
fn close(f: f64, s: i64, us: i64) -> bool {
    let exact = s as f64 + us as f64 / 1e6;
    let ulp = (f.abs().max(1.0)) * f64::EPSILON;
    (f - exact).abs() <= (1.5e-6f64).max(2.0 * ulp)
}

fn is_err(v: &RVal) -> bool {
    matches!(v, RVal::Str(s, false) if s == E.as_bytes())
}

pub fn main(tier: Tier) -> ! {
    jq::quiet_panics();
    std::env::set_var("TZ", "UTC");
    let run = Run::new("C20", "model_checking", tier);
    let p1 = jq::compile_full(&format!("[try gmtime catch \"{E}\", try (gmtime|mktime) catch \"{E}\", try todate catch \"{E}\", try (todate|fromdate) catch \"{E}\"]"), &[]).unwrap();
    let pf: Vec<jq::F> = FORMATS.iter().map(|f| jq::compile_full(&format!("try (strftime(\"{f}\") | strptime(\"{f}\") | mktime) catch \"{E}\""), &[]).unwrap()).collect();

    // ---------------------------------------------------------- 1. every day in range
    let day0 = days_from_civil(-9998, 1, 1);
    let day1 = days_from_civil(9998, 12, 31);
    let days: Vec<i64> = if run.quick() {
        let mut v: Vec<i64> = (days_from_civil(1582, 1, 1)..=days_from_civil(2400, 12, 31)).collect();
        for y in -9998..=9998 {
            for (m, d) in [(1, 1), (2, 28), (3, 1), (12, 31), (6, 15)] {
                v.push(days_from_civil(y, m, d));
            }
            if is_leap(y) {
                v.push(days_from_civil(y, 2, 29));
            }
        }
        v
    } else {
        (day0..=day1).collect()
    };
    let one = |c: &mut Counts, t: i64, full_formats: bool| {
        let g = model_gmtime(t);
        let key = format!("epoch {t}");
        let out = jq::run_vals(&p1, Val::from(t as isize), vec![], 2);
        let r: Vec<RVal> = match &out {
            Ok(o) if o.len() == 1 => match &o[0] {
                Ok(Val::Arr(a)) => a.iter().map(jq::to_rval).collect(),
                _ => vec![],
            },
            _ => vec![],
        };
        c.case(h64(&key), true, h64(&(g[1], g[2], g[6])));
        c.transitions += 4;
        let mut bad = vec![];
        if r.len() != 4 {
            bad.push(format!("program failed: {:?}", out.map(|o| o.len())));
        } else {
            if !rv::same(&r[0], &bdt(&g)) {
                bad.push(format!("gmtime: model {} impl {}", bdt(&g), r[0]));
            }
            if !rv::same(&r[1], &rv::int(t)) {
                bad.push(format!("gmtime|mktime: expected {t}, got {}", r[1]));
            }
            if let Some(iso) = model_iso(t) {
                if !rv::same(&r[2], &rv::s(&iso)) {
                    bad.push(format!("todate: model {iso:?} impl {}", r[2]));
                }
            }
            if !rv::same(&r[3], &rv::int(t)) {
                bad.push(format!("todate|fromdate: expected {t}, got {}", r[3]));
            }
        }
        if full_formats {
            for (f, p) in FORMATS.iter().zip(&pf) {
                c.transitions += 1;
                let o = jq::run_vals(p, Val::from(t as isize), vec![], 2);
                let ok = matches!(&o, Ok(o) if o.len() == 1 && matches!(&o[0], Ok(v) if rv::same(&jq::to_rval(v), &rv::int(t))));
                if !ok {
                    bad.push(format!("strftime({f:?})|strptime|mktime: expected {t}, got {:?}", o.map(|o| o.iter().map(|x| x.as_ref().map(|v| v.to_string()).map_err(|e| format!("{e:?}"))).collect::<Vec<_>>())));
                }
            }
        }
        if !bad.is_empty() {
            run.violation(&key, json!({"epoch": t, "utc": format!("{:?}", g), "disagreements": bad}));
        }
    };
    let counts = days
        .par_chunks(512)
        .map(|ch| {
            let mut c = Counts::default();
            for &d in ch {
                let y = civil_from_days(d).0;
                // complete formats need a 4-digit non-negative year to be re-parsed unambiguously
                let ff = (1..=9999).contains(&y);
                one(&mut c, d * 86400, ff);
                one(&mut c, d * 86400 + 86399, false);
            }
            c
        })
        .reduce(Counts::default, Counts::merge);
    run.family("days", json!({"days": days.len(), "instants": counts.evaluations, "range": [civil_from_days(*days.iter().min().unwrap()).0, civil_from_days(*days.iter().max().unwrap()).0]}));
    run.add(counts);
    run.bound_done(if run.quick() { "every day of 1582..2400 and 5-6 marked days of every year -9998..9998, at 00:00:00 and 23:59:59".to_string() } else { "every day of the years -9998..9998 at 00:00:00 and 23:59:59".into() });

    // ---------------------------------------------------------- 2. edges: must work inside, must fail outside
    let mut c = Counts::default();
    let lo_ok = days_from_civil(-9998, 1, 1) * 86400;
    let hi_ok = days_from_civil(9998, 12, 31) * 86400 + 86399;
    let lo_rep = days_from_civil(-9999, 1, 1) * 86400;
    let hi_rep = days_from_civil(9999, 12, 31) * 86400 + 86399;
    let mut edges: Vec<i128> = vec![];
    for b in [0i128, 1 << 31, 1 << 32, 1 << 53, 1 << 62, (1 << 63) - 1, 1 << 63, (1 << 63) + 1, 1 << 64, lo_ok as i128, hi_ok as i128, lo_rep as i128, hi_rep as i128, 9223372036854i128, 9223372036855i128, 253402300800, 253402300799, -62167219200, -62167219201, 951782400, 68169600] {
        for s in [1i128, -1] {
            for d in [-2i128, -1, 0, 1, 2] {
                edges.push(s * b + d);
            }
        }
    }
    edges.sort();
    edges.dedup();
    let pg = jq::compile_full(&format!("[try gmtime catch \"{E}\", try todate catch \"{E}\", try strftime(\"%Y\") catch \"{E}\", try (gmtime|mktime) catch \"{E}\"]"), &[]).unwrap();
    for &t in &edges {
        let v = jq::to_val(&RVal::Int(num_bigint::BigInt::from(t)));
        let key = format!("edge epoch {t}");
        let out = jq::run_trace(&pg, v, vec![], vec![], 2);
        c.case(h64(&key), true, h64(&(t > hi_rep as i128, t < lo_rep as i128)));
        c.transitions += 4;
        let r: Vec<RVal> = match out.first() {
            Some(jq::Ev::Out(RVal::Arr(a))) => a.clone(),
            _ => vec![],
        };
        if r.len() != 4 {
            run.violation(&key, json!({"epoch": t.to_string(), "what": "date filters did not end with a value or an error", "trace": jq::trace_json(&out)}));
            continue;
        }
        if t >= lo_ok as i128 && t <= hi_ok as i128 {
            let g = model_gmtime(t as i64);
            if !rv::same(&r[0], &bdt(&g)) || !rv::same(&r[3], &rv::int(t as i64)) {
                run.violation(&key, json!({"epoch": t.to_string(), "model": bdt(&g).to_string(), "impl": RVal::Arr(r).to_string()}));
            }
        } else if t < lo_rep as i128 || t > hi_rep as i128 {
            // outside years -9999..9999: every filter must fail
            let names = ["gmtime", "todate", "strftime(\"%Y\")", "gmtime|mktime"];
            for (i, x) in r.iter().enumerate() {
                if !is_err(x) {
                    run.violation(&format!("{key}: {}", names[i]), json!({"epoch": t.to_string(), "filter": names[i], "what": "time outside the representable range was answered with a value instead of an error", "value": x.to_string()}));
                }
            }
        }
    }
    // non-finite, non-numeric
    let weird: Vec<(&str, RVal)> = vec![
        ("nan", RVal::Float(f64::NAN)),
        ("infinite", RVal::Float(f64::INFINITY)),
        ("-infinite", RVal::Float(f64::NEG_INFINITY)),
        ("1e300", RVal::Float(1e300)),
        ("-1e300", RVal::Float(-1e300)),
        ("1e1000 (decimal)", RVal::Dec("1e1000".into())),
        ("null", RVal::Null),
        ("true", RVal::Bool(true)),
        ("\"0\"", rv::s("0")),
        ("{}", RVal::Obj(vec![])),
        ("[]", RVal::Arr(vec![])),
        ("1e19", RVal::Float(1e19)),
        ("3e11", RVal::Float(3e11)),
        ("9.3e12", RVal::Float(9.3e12)),
    ];
    let pw = jq::compile_full(&format!("[try gmtime catch \"{E}\", try todate catch \"{E}\", try strftime(\"%Y\") catch \"{E}\"]"), &[]).unwrap();
    for (name, v) in &weird {
        let key = format!("non-time input {name}");
        let out = jq::run_trace(&pw, jq::to_val(v), vec![], vec![], 2);
        c.case(h64(&key), true, h64(name));
        c.transitions += 3;
        let is_arr = matches!(v, RVal::Arr(_));
        match out.first() {
            Some(jq::Ev::Out(RVal::Arr(a))) if a.len() == 3 => {
                let names = ["gmtime", "todate", "strftime(\"%Y\")"];
                for (i, x) in a.iter().enumerate() {
                    if !is_err(x) && !(is_arr && i == 2) {
                        run.violation(&format!("{key}: {}", names[i]), json!({"input": name, "filter": names[i], "what": "non-finite / non-numeric / out-of-range input was answered with a value instead of an error", "value": x.to_string()}));
                    }
                }
            }
            _ => run.violation(&key, json!({"input": name, "what": "date filters did not end with a value or an error", "trace": jq::trace_json(&out)})),
        }
    }
    run.family("edges", json!({"integer_edges": edges.len(), "non_time_inputs": weird.len()}));

    // ---------------------------------------------------------- 3. fractional epochs (to the microsecond)
    let pfrac = jq::compile_full(&format!("[try gmtime catch \"{E}\", try (gmtime|mktime) catch \"{E}\", try (todate|fromdate) catch \"{E}\", try todate catch \"{E}\"]"), &[]).unwrap();
    let mut secs: Vec<i64> = vec![0, 1, -1, 59, -59, 86399, -86400, 951782400, -951782400, (1 << 31) - 1, -(1 << 31), 1234567890, -1234567890];
    for k in 0..(if run.quick() { 40 } else { 400 }) {
        secs.push((k * 53_687_091) % (1 << 31));
        secs.push(-((k * 53_687_091) % (1 << 31)));
    }
    for &s in &secs {
        for k in [1i64, 499_999, 500_000, 999_999] {
            let micros = s * 1_000_000 + k;
            let t = micros as f64 / 1e6;
            if (t * 1e6).round() as i64 != micros {
                continue; // not representable to the microsecond
            }
            let key = format!("fractional epoch {micros}e-6");
            let out = jq::run_trace(&pfrac, Val::from(t), vec![], vec![], 2);
            c.case(h64(&key), true, h64(&(k, s.signum())));
            c.transitions += 4;
            let r: Vec<RVal> = match out.first() {
                Some(jq::Ev::Out(RVal::Arr(a))) => a.clone(),
                _ => vec![],
            };
            let whole = micros.div_euclid(1_000_000);
            let frac = micros.rem_euclid(1_000_000);
            let g = model_gmtime(whole);
            let mut bad = vec![];
            if r.len() != 4 {
                bad.push("program failed".to_string());
            } else {
                match &r[0] {
                    RVal::Arr(a) if a.len() == 8 => {
                        for i in [0, 1, 2, 3, 4, 6, 7] {
                            if !rv::same(&a[i], &rv::int(g[i])) {
                                bad.push(format!("gmtime field {i}: model {} impl {}", g[i], a[i]));
                            }
                        }
                        let sec = a[5].f64().unwrap_or(f64::NAN);
                        if ((sec * 1e6).round() as i64) != g[5] * 1_000_000 + frac {
                            bad.push(format!("gmtime seconds: model {}.{:06} impl {}", g[5], frac, a[5]));
                        }
                    }
                    x => bad.push(format!("gmtime: {x}")),
                }
                for (i, name) in [(1, "gmtime|mktime"), (2, "todate|fromdate")] {
                    let back = r[i].f64().unwrap_or(f64::NAN);
                    if (back * 1e6).round() as i64 != micros {
                        bad.push(format!("{name}: expected {t}, got {}", r[i]));
                    }
                }
                if let Some(iso) = model_iso(whole) {
                    let exp = format!("{}.{:06}Z", &iso[..19], frac);
                    let exp = exp.trim_end_matches('Z').trim_end_matches('0').to_string() + "Z";
                    if !rv::same(&r[3], &rv::s(&exp)) {
                        bad.push(format!("todate: model {exp:?} impl {}", r[3]));
                    }
                }
            }
            if !bad.is_empty() {
                run.violation(&key, json!({"epoch": t, "disagreements": bad}));
            }
        }
    }
    run.family("fractional", json!({"seconds": secs.len(), "fractions": [1, 499999, 500000, 999999]}));

    // ---------------------------------------------------------- 4. broken-down arrays
    let pm = jq::compile_full(&format!("try mktime catch \"{E}\""), &[]).unwrap();
    let years: Vec<RVal> = [-10000i64, -9999, -1, 0, 1, 1970, 2024, 9999, 10000, 32768, 2147483648].iter().map(|x| rv::int(*x)).collect();
    let months: Vec<RVal> = [-1i64, 0, 1, 11, 12, 127, 128].iter().map(|x| rv::int(*x)).chain([RVal::Float(1.5)]).collect();
    let dayv: Vec<RVal> = [0i64, 1, 28, 29, 30, 31, 32, 128].iter().map(|x| rv::int(*x)).collect();
    let hours: Vec<RVal> = [-1i64, 0, 23, 24].iter().map(|x| rv::int(*x)).collect();
    let mins: Vec<RVal> = [-1i64, 0, 59, 60].iter().map(|x| rv::int(*x)).collect();
    let secv: Vec<RVal> = vec![rv::int(-1), RVal::Float(-0.5), rv::int(0), rv::int(59), RVal::Float(59.999999), rv::int(60), RVal::Float(127.5), rv::int(128), RVal::Float(1e10), RVal::Float(f64::NAN), RVal::Float(f64::INFINITY), rv::s("0"), RVal::Null];
    let (hs, ms): (&[RVal], &[RVal]) = if run.quick() { (&hours[1..3], &mins[1..3]) } else { (&hours, &mins) };
    let mut arrays: Vec<Vec<RVal>> = vec![];
    for y in &years {
        for m in &months {
            for d in &dayv {
                for h in hs {
                    for mi in ms {
                        for s in &secv {
                            arrays.push(vec![y.clone(), m.clone(), d.clone(), h.clone(), mi.clone(), s.clone()]);
                        }
                    }
                }
            }
        }
    }
    // the remaining field combinations on a valid date
    for h in &hours {
        for mi in &mins {
            for s in &secv {
                arrays.push(vec![rv::int(2000), rv::int(1), rv::int(29), h.clone(), mi.clone(), s.clone()]);
            }
        }
    }
    let field = |v: &RVal, lo: i64, hi: i64| -> Option<i64> {
        match v {
            RVal::Int(i) => num_traits::ToPrimitive::to_i64(i).filter(|x| *x >= lo && *x <= hi),
            _ => None,
        }
    };
    let counts = arrays
        .par_chunks(256)
        .map(|ch| {
            let mut c = Counts::default();
            for a in ch {
                let key = format!("mktime {}", RVal::Arr(a.clone()));
                let y = field(&a[0], -9998, 9998);
                let m = field(&a[1], 0, 11);
                let d = y.zip(m).and_then(|(y, m)| field(&a[2], 1, days_in_month(y, m + 1)));
                let h = field(&a[3], 0, 23);
                let mi = field(&a[4], 0, 59);
                let (s, frac): (Option<i64>, i64) = match &a[5] {
                    RVal::Int(_) => (field(&a[5], 0, 59), 0),
                    RVal::Float(f) if f.is_finite() && *f >= 0.0 && *f < 60.0 => (Some(f.floor() as i64), ((f - f.floor()) * 1e6).round() as i64),
                    _ => (None, 0),
                };
                let valid = y.is_some() && m.is_some() && d.is_some() && h.is_some() && mi.is_some() && s.is_some();
                // definitely malformed: some field outside its calendar range (year only outside -9999..9999; second 60 tolerated)
                let year_bad = !matches!(&a[0], RVal::Int(i) if num_traits::ToPrimitive::to_i64(i).map_or(false, |x| (-9999..=9999).contains(&x)));
                let sec_bad = match &a[5] {
                    RVal::Int(i) => num_traits::ToPrimitive::to_i64(i).map_or(true, |x| !(0..=60).contains(&x)),
                    RVal::Float(f) => !(f.is_finite() && *f >= 0.0 && *f < 61.0),
                    _ => true,
                };
                let day_bad = match (&a[0], m) {
                    (RVal::Int(_), Some(m)) => field(&a[2], 1, days_in_month(y.unwrap_or(2000), m + 1)).is_none() && y.is_some(),
                    _ => field(&a[2], 1, 31).is_none(),
                };
                let malformed = year_bad || m.is_none() || day_bad || h.is_none() || mi.is_none() || sec_bad;
                let out = jq::run_trace(&pm, jq::to_val(&RVal::Arr(a.clone())), vec![], vec![], 2);
                c.case(h64(&key), true, h64(&(valid, malformed)));
                match out.first() {
                    Some(jq::Ev::Out(v)) => {
                        if valid {
                            let t = days_from_civil(y.unwrap(), m.unwrap() + 1, d.unwrap()) * 86400 + h.unwrap() * 3600 + mi.unwrap() * 60 + s.unwrap();
                            let ok = if frac == 0 { rv::same(v, &rv::int(t)) } else { v.f64().map_or(false, |f| close(f, t, frac)) };
                            if !ok {
                                run.violation(&key, json!({"array": RVal::Arr(a.clone()).to_string(), "model_epoch": t, "model_micros": frac, "impl": v.to_string()}));
                            }
                        } else if malformed && !is_err(v) {
                            run.violation(&key, json!({"array": RVal::Arr(a.clone()).to_string(), "what": "malformed broken-down time was answered with an instant instead of an error", "impl": v.to_string()}));
                        }
                    }
                    _ => run.violation(&key, json!({"array": RVal::Arr(a.clone()).to_string(), "what": "mktime did not end with a value or an error", "trace": jq::trace_json(&out)})),
                }
            }
            c
        })
        .reduce(Counts::default, Counts::merge);
    run.family("broken-down arrays", json!({"arrays": counts.evaluations}));
    run.add(counts);
    // short arrays / non-arrays
    for (name, v) in [("[]", "[]"), ("[1970]", "[1970]"), ("[1970,0,1,0,0]", "[1970,0,1,0,0]"), ("null", "null"), ("0", "0"), ("\"x\"", "\"x\""), ("{}", "{}"), ("[\"1970\",0,1,0,0,0]", "[\"1970\",0,1,0,0,0]"), ("[1970,0,1,0,0,0,\"x\",\"y\"]", "[1970,0,1,0,0,0,\"x\",\"y\"]")] {
        let out = jq::run_trace(&pm, jq::to_val(&crate::eval_const(v)), vec![], vec![], 2);
        let key = format!("mktime {name}");
        c.case(h64(&key), true, h64(name));
        let ok = match out.first() {
            Some(jq::Ev::Out(x)) => is_err(x) || (name.ends_with("\"y\"]") && rv::same(x, &rv::int(0))),
            _ => false,
        };
        if !ok {
            run.violation(&key, json!({"input": name, "what": "malformed input must be rejected with an error", "trace": jq::trace_json(&out)}));
        }
    }

    // ---------------------------------------------------------- 5. ISO-8601 / RFC 3339 texts
    let pi = jq::compile_full(&format!("try fromdate catch \"{E}\""), &[]).unwrap();
    let base = days_from_civil(1955, 11, 12) * 86400 + 22 * 3600 + 4 * 60;
    let mut texts: Vec<(String, Option<(i64, i64)>)> = vec![]; // text, expected (seconds, micros)
    let mut comma_texts: Vec<(String, (i64, i64))> = vec![];
    for (z, off) in [("Z", 0i64), ("+00:00", 0), ("-00:00", 0), ("-08:00", -8 * 3600), ("+14:00", 14 * 3600), ("+05:30", 5 * 3600 + 1800), ("z", 0)] {
        texts.push((format!("1955-11-12T22:04:00{z}"), Some((base - off, 0))));
        texts.push((format!("1955-11-12t22:04:00{z}"), Some((base - off, 0))));
        for digits in 1..=9usize {
            let fracs = "123456789";
            let f = &fracs[..digits];
            let micros: i64 = format!("{:0<6}", &f[..digits.min(6)]).parse().unwrap();
            texts.push((format!("1955-11-12T22:04:00.{f}{z}"), Some((base - off, micros))));
            // ISO 8601 also allows a comma as decimal sign: if the text is accepted, it denotes the same instant
            comma_texts.push((format!("1955-11-12T22:04:00,{f}{z}"), (base - off, micros)));
        }
    }
    for bad in ["1955-13-12T22:04:00Z", "1955-11-31T22:04:00Z", "1955-02-29T00:00:00Z", "1955-11-12T24:04:00Z", "1955-11-12T22:60:00Z", "1955-11-12T22:04:61Z", "1955-11-12", "22:04:00Z", "1955-11-12T22:04:00", "", "x", "10000-01-01T00:00:00Z", "1955-00-12T22:04:00Z", "1955-11-00T22:04:00Z"] {
        texts.push((bad.to_string(), None));
    }
    texts.push(("2000-02-29T23:59:59Z".into(), Some((days_from_civil(2000, 2, 29) * 86400 + 86399, 0))));
    texts.push(("0001-01-01T00:00:00Z".into(), Some((days_from_civil(1, 1, 1) * 86400, 0))));
    texts.push(("9998-12-31T23:59:59Z".into(), Some((days_from_civil(9998, 12, 31) * 86400 + 86399, 0))));
    for (text, (s, us)) in &comma_texts {
        let key = format!("fromdate {text:?}");
        let out = jq::run_trace(&pi, jq::to_val(&rv::s(text)), vec![], vec![], 2);
        c.case(h64(&key), true, h64(&"comma"));
        if let Some(jq::Ev::Out(got)) = out.first() {
            // rejected is fine (RFC 3339 has no comma); accepted must not be answered with another instant
            if !is_err(got) && !got.f64().map_or(false, |f| close(f, *s, *us)) {
                run.violation(&key, json!({"text": text, "what": "accepted, but answered with a different instant", "model_epoch": s, "model_micros": us, "impl": got.to_string()}));
            }
        }
    }
    for (text, exp) in &texts {
        let key = format!("fromdate {text:?}");
        let out = jq::run_trace(&pi, jq::to_val(&rv::s(text)), vec![], vec![], 2);
        c.case(h64(&key), true, h64(&exp.is_some()));
        let got = match out.first() {
            Some(jq::Ev::Out(v)) => v.clone(),
            _ => {
                run.violation(&key, json!({"text": text, "what": "fromdate did not end with a value or an error", "trace": jq::trace_json(&out)}));
                continue;
            }
        };
        match exp {
            None => {
                if !is_err(&got) {
                    run.violation(&key, json!({"text": text, "what": "malformed or out-of-range timestamp text accepted", "impl": got.to_string()}));
                }
            }
            Some((s, us)) => {
                let ok = if *us == 0 { rv::same(&got, &rv::int(*s)) || got.f64() == Some(*s as f64) } else { got.f64().map_or(false, |f| close(f, *s, *us)) };
                if !ok {
                    run.violation(&key, json!({"text": text, "model_epoch": s, "model_micros": us, "impl": got.to_string()}));
                }
            }
        }
    }
    run.family("iso texts", json!({"texts": texts.len()}));
    run.add(c);
    run.sample(json!({"epoch": 951782400, "model_gmtime": format!("{:?}", model_gmtime(951782400)), "iso": model_iso(951782400)}));
    run.sample(json!({"mktime_array_example": "[2000,1,29,23,59,59.999999]", "fromdate_text_example": &texts[5].0}));
    run.sample(json!({"formats": FORMATS}));

    run.finish(
        "integer epochs: every day (thorough: of all years -9998..9998; quick: 1582..2400 plus marked days of every year) at 00:00:00 and 23:59:59 through gmtime, gmtime|mktime, todate, todate|fromdate and five complete strftime/strptime formats, compared with an independent days-from-civil model; range limits, +-2^31..2^64 and neighbours, non-finite and non-numeric inputs must be errors outside years -9999..9999; fractional epochs to the microsecond; the full product of edge field values for broken-down arrays (valid -> model instant, malformed -> error); RFC 3339 texts with offsets and 1..9 fractional digits. distinct = distinct instants / arrays / texts",
        &["complete-format round trips are demanded for years 1..9999 (4-digit years)", "second 60 and years +-9999 are accepted either way", "TZ=UTC is set by the harness"],
    )
}
