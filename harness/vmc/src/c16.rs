//! C16 — a program split into modules computes what its inlined form computes.
//! Every module graph of a bounded family (main + three modules; each of the six forward edges absent,
//! `include` or `import .. as`; name clashes, a shadowed builtin, unique names, a definition with a
//! variable parameter, data imports, a global variable, calls from under binders) is loaded through the
//! real loader and compiler from an in-memory file system and run; an independent resolver (the scoping
//! rules of the manual) produces the inlined single program, which must yield the same output. Every
//! name the resolver says is *not* visible somewhere must make compilation fail when used there.
//! Cyclic graphs must be reported. Search order and file-name rules are checked at process level
//! (py/c16_search.py).
use crate::ev::{h64, Counts, Run, Tier};
use crate::ext;
use crate::jq;
use jaq_all::jaq_core::load::{self, Arena, File, Import, Loader};
use jaq_all::jaq_core::Compiler;
use jaq_all::json::Val;
use rayon::prelude::*;
use serde_json::json;
use std::collections::BTreeMap;

const NAMES: [&str; 4] = ["main", "a", "b", "c"];
const ALIAS: [&str; 4] = ["M", "A", "B", "C"];

#[derive(Clone, Copy, PartialEq, Debug)]
enum Edge {
    None,
    Include,
    Import,
}

#[derive(Clone, Debug)]
struct Graph {
    /// edge[x][y] for x < y
    edge: [[Edge; 4]; 4],
    /// directives of a module in descending target order instead of ascending
    rev: bool,
    /// which modules import a data file (bit m)
    data: u8,
}

/// definitions of module m, in order: (name, arity)
fn defs_of(m: usize) -> Vec<(&'static str, usize)> {
    let mut d: Vec<(&'static str, usize)> = vec![("f", 0), ("first", 0), ("h", 1)]; // `first` shadows a builtin that is defined in jq
    if m >= 2 {
        d.push(("w", 0)); // only b and c define w
        d.push(("length", 0)); // ... and shadow a builtin that is implemented natively
    }
    d.push((["u_main", "u_a", "u_b", "u_c"][m], 0));
    d.push(("g", 0)); // g is last: it calls everything that is visible
    if m == 1 {
        d.push(("f", 0)); // a defines f twice: the later one wins for everything after it (and for includers)
    }
    d
}

thread_local! { static DATA_MASK: std::cell::Cell<u8> = const { std::cell::Cell::new(0b0101) }; }

/// does module m import a data file as $d? (bit m of the graph's mask; main and b by default)
fn has_data(m: usize) -> bool {
    DATA_MASK.with(|d| d.get() >> m & 1 == 1)
}

/// the target order of the directives of module m
fn directives(g: &Graph, m: usize) -> Vec<(usize, Edge)> {
    let mut v: Vec<(usize, Edge)> = (m + 1..4).filter(|y| g.edge[m][*y] != Edge::None).map(|y| (y, g.edge[m][y])).collect();
    if g.rev {
        v.reverse();
    }
    v
}

#[derive(Clone, Debug, PartialEq)]
enum Target {
    Def(usize, usize), // module, definition index
    Builtin,
}

/// the scoping rules: own definitions up to and including `upto` (latest first), then included modules
/// (latest directive first; only the module's own definitions), then builtins
fn resolve_plain(g: &Graph, m: usize, upto: usize, name: &str, arity: usize) -> Option<Target> {
    let own = defs_of(m);
    for i in (0..=upto.min(own.len() - 1)).rev() {
        if own[i] == (name, arity) {
            return Some(Target::Def(m, i));
        }
    }
    for (y, e) in directives(g, m).iter().rev() {
        if *e == Edge::Include {
            let d = defs_of(*y);
            if let Some(i) = (0..d.len()).rev().find(|i| d[*i] == (name, arity)) {
                return Some(Target::Def(*y, i));
            }
        }
    }
    ((name == "first" || name == "length") && arity == 0).then_some(Target::Builtin)
}

fn resolve_qualified(g: &Graph, m: usize, alias: &str, name: &str, arity: usize) -> Option<Target> {
    let (y, _) = directives(g, m).into_iter().rev().find(|(y, e)| *e == Edge::Import && ALIAS[*y] == alias)?;
    let d = defs_of(y);
    (0..d.len()).rev().find(|i| d[*i] == (name, arity)).map(|i| Target::Def(y, i))
}

/// candidate call sites: (text in the module, resolution)
fn universe() -> Vec<(String, Option<&'static str>, &'static str, usize)> {
    let mut u = vec![];
    for (n, a) in [("f", 0), ("first", 0), ("length", 0), ("w", 0), ("u_main", 0), ("u_a", 0), ("u_b", 0), ("u_c", 0), ("g", 0), ("h", 1)] {
        u.push((if a == 0 { n.to_string() } else { format!("{n}(7)") }, None, n, a));
        for al in &ALIAS[1..] {
            u.push((if a == 0 { format!("{al}::{n}") } else { format!("{al}::{n}(7)") }, Some(*al), n, a));
        }
    }
    u
}

const VARS: [&str; 5] = ["$d", "$glob", "$p", "$q", "$k"];

fn var_visible(m: usize, in_g: bool, v: &str) -> bool {
    match v {
        "$glob" => true,
        "$d" => has_data(m),
        "$k" => in_g && m != 0,             // bound inside g of the modules
        "$p" | "$q" => !in_g && m == 0,     // bound around the main body only
        _ => false,
    }
}

fn mangle(m: usize, i: usize) -> String {
    format!("m_{}__{}_{}", NAMES[m], defs_of(m)[i].0, i)
}

/// body of definition i of module m: (module text, inlined text)
fn def_body(g: &Graph, m: usize, i: usize, extra: Option<&str>) -> (String, String) {
    let (name, _arity) = defs_of(m)[i];
    let lit = format!("\"{}.{}#{}\"", NAMES[m], name, i);
    match name {
        "g" => {
            // everything visible from here, except g itself (recursion)
            let mut t = vec![lit.clone()];
            let mut inl = vec![lit];
            for (text, alias, n, a) in universe() {
                let r = match alias {
                    None => resolve_plain(g, m, i, n, a),
                    Some(al) => resolve_qualified(g, m, al, n, a),
                };
                match r {
                    Some(Target::Def(tm, ti)) if (tm, ti) != (m, i) => {
                        t.push(text.clone());
                        inl.push(if a == 0 { mangle(tm, ti) } else { format!("{}(7)", mangle(tm, ti)) });
                    }
                    Some(Target::Builtin) => {
                        t.push(text.clone());
                        inl.push(n.to_string());
                    }
                    _ => {}
                }
            }
            for v in VARS {
                if var_visible(m, true, v) {
                    t.push(v.to_string());
                    inl.push(if v == "$d" { format!("[\"{}.data\"]", NAMES[m]) } else { v.to_string() });
                }
            }
            if let Some(x) = extra {
                t.push(x.to_string());
            }
            let wrap = |v: Vec<String>| if m == 0 { format!("[{}]", v.join(", ")) } else { format!("3 as $k | 4 as $unused | [{}]", v.join(", ")) };
            (wrap(t), wrap(inl))
        }
        "h" => (format!("[$v, {lit}]"), format!("[$v, {lit}]")),
        _ => (lit.clone(), lit),
    }
}

fn module_text(g: &Graph, m: usize, extra_in_g: Option<&str>, extra_in_main: Option<&str>) -> String {
    let mut s = String::new();
    for (y, e) in directives(g, m) {
        match e {
            Edge::Include => s.push_str(&format!("include \"{}\";\n", NAMES[y])),
            Edge::Import => s.push_str(&format!("import \"{}\" as {};\n", NAMES[y], ALIAS[y])),
            Edge::None => {}
        }
    }
    if has_data(m) {
        s.push_str(&format!("import \"data_{}\" as $d;\n", NAMES[m]));
    }
    for (i, (name, arity)) in defs_of(m).iter().enumerate() {
        let (body, _) = def_body(g, m, i, if *name == "g" { extra_in_g } else { None });
        s.push_str(&format!("def {name}{}: {body};\n", if *arity == 1 { "($v)" } else { "" }));
    }
    if m == 0 {
        s.push_str(&main_body(g, extra_in_main).0);
    }
    s
}

/// the main filter: calls everything visible from the main module, from under two binders
fn main_body(g: &Graph, extra: Option<&str>) -> (String, String) {
    let last = defs_of(0).len() - 1;
    let mut t = vec![];
    let mut inl = vec![];
    for (text, alias, n, a) in universe() {
        let r = match alias {
            None => resolve_plain(g, 0, last, n, a),
            Some(al) => resolve_qualified(g, 0, al, n, a),
        };
        match r {
            Some(Target::Def(tm, ti)) => {
                t.push(if a == 1 { text.replace("(7)", "($q)") } else { text.clone() });
                inl.push(if a == 0 { mangle(tm, ti) } else { format!("{}($q)", mangle(tm, ti)) });
            }
            Some(Target::Builtin) => {
                t.push(text.clone());
                inl.push(n.to_string());
            }
            None => {}
        }
    }
    for v in VARS {
        if var_visible(0, false, v) {
            t.push(v.to_string());
            inl.push(if v == "$d" { "[\"main.data\"]".to_string() } else { v.to_string() });
        }
    }
    if let Some(x) = extra {
        t.push(x.to_string());
    }
    let wrap = |v: Vec<String>| format!(". as $p | 5 as $q | [{}]", v.join(", "));
    (wrap(t), wrap(inl))
}

fn inlined(g: &Graph) -> String {
    let mut s = String::new();
    for m in (0..4).rev() {
        for (i, (_name, arity)) in defs_of(m).iter().enumerate() {
            let (_, body) = def_body(g, m, i, None);
            s.push_str(&format!("def {}{}: {body};\n", mangle(m, i), if *arity == 1 { "($v)" } else { "" }));
        }
    }
    s.push_str(&main_body(g, None).1);
    s
}

/// load + compile the module set from an in-memory file system with the real loader and compiler
fn compile_modules(files: &BTreeMap<String, String>, main: &str) -> Result<(jq::F, Vec<Val>), String> {
    let arena = Arena::default();
    let defs = jq::defdb().closure(&["first", "empty", "error", "not", "map", "select", "recurse", "limit"].iter().map(|s| s.to_string()).collect());
    let loader = Loader::new(defs).with_read(|imp: Import<&str, String>| {
        let name = if imp.path.contains('.') { imp.path.to_string() } else { format!("{}.jq", imp.path) };
        match files.get(&name) {
            Some(code) => Ok(File { code: code.clone(), path: name }),
            None => Err("file not found".to_string()),
        }
    });
    let modules = loader.load(&arena, File { path: "<main>".to_string(), code: main }).map_err(|e| format!("load: {}", render_load(e)))?;
    let mut vals = vec![];
    load::import(&modules, |imp| {
        let name = if imp.path.contains('.') { imp.path.to_string() } else { format!("{}.json", imp.path) };
        let text = files.get(&name).ok_or("file not found")?;
        let v: Vec<Val> = jaq_all::json::read::parse_many(text.as_bytes()).collect::<Result<_, _>>().map_err(|e| e.to_string())?;
        vals.push(v.into_iter().collect::<Val>());
        Ok(())
    })
    .map_err(|e| format!("data: {}", render_load(e)))?;
    let funs = jaq_all::data::funs().chain(jq::harness_funs());
    let f = Compiler::default().with_funs(funs).with_global_vars(["$glob"]).compile(modules).map_err(|errs| format!("compile: {} error group(s): {}", errs.len(), errs.iter().map(|(f, es)| format!("{}: {}", f.path, es.iter().map(|(n, _)| n.to_string()).collect::<Vec<_>>().join(" "))).collect::<Vec<_>>().join("; ")))?;
    Ok((f, vals))
}

fn render_load(errs: load::Errors<&str, String>) -> String {
    errs.iter()
        .map(|(f, e)| {
            format!(
                "{}: {}",
                f.path,
                match e {
                    load::Error::Io(v) => v.iter().map(|(p, m)| format!("{p}: {m}")).collect::<Vec<_>>().join(", "),
                    load::Error::Lex(_) => "lex error".to_string(),
                    load::Error::Parse(v) => format!("parse error ({} )", v.len()),
                }
            )
        })
        .collect::<Vec<_>>()
        .join("; ")
}

fn files_of(g: &Graph, extra: Option<(usize, bool, &str)>) -> (BTreeMap<String, String>, String) {
    let mut files = BTreeMap::new();
    for m in 1..4 {
        let ex = extra.and_then(|(em, _, x)| (em == m).then_some(x));
        files.insert(format!("{}.jq", NAMES[m]), module_text(g, m, ex, None));
    }
    for m in 0..4 {
        if has_data(m) {
            files.insert(format!("data_{}.json", NAMES[m]), format!("\"{}.data\"", NAMES[m]));
        }
    }
    let main = match extra {
        Some((0, true, x)) => module_text(g, 0, Some(x), None),
        Some((0, false, x)) => module_text(g, 0, None, Some(x)),
        _ => module_text(g, 0, None, None),
    };
    (files, main)
}

fn run_prog(f: &jq::F, data: Vec<Val>) -> String {
    let input = crate::eval_const("[10, 20]");
    let mut vars = vec![jq::to_val(&crate::rval::s("G"))];
    vars.extend(data);
    jq::trace_json(&jq::run_trace(f, jq::to_val(&input), vars, vec![], 8)).to_string()
}

fn graphs(with_rev: bool, masks: &[u8]) -> Vec<Graph> {
    let pairs = [(0, 1), (0, 2), (0, 3), (1, 2), (1, 3), (2, 3)];
    let mut out = vec![];
    for &data in masks {
        for code in 0..3usize.pow(6) {
            let mut edge = [[Edge::None; 4]; 4];
            let mut c = code;
            for (x, y) in pairs {
                edge[x][y] = [Edge::None, Edge::Include, Edge::Import][c % 3];
                c /= 3;
            }
            out.push(Graph { edge, rev: false, data });
            if with_rev {
                out.push(Graph { edge, rev: true, data });
            }
        }
    }
    out
}

pub fn main(tier: Tier) -> ! {
    jq::quiet_panics();
    let run = Run::new("C16", "model_checking", tier);
    // which modules import a data file: main and b (quick); every subset of the four modules (thorough)
    let masks: Vec<u8> = if run.quick() { vec![0b0101] } else { (0..16).collect() };
    let gs = graphs(true, &masks);
    let c = gs
        .par_iter()
        .map(|g| {
            let mut c = Counts::default();
            DATA_MASK.with(|d| d.set(g.data));
            let key = format!("graph {:?} rev={} data-imports={:04b}", g.edge.iter().flatten().map(|e| format!("{e:?}").chars().next().unwrap()).collect::<String>(), g.rev, g.data);
            // positive: the split program equals the inlined program
            let (files, main) = files_of(g, None);
            let inl = inlined(g);
            let want = match jq::compile(&inl, &["glob"]) {
                Ok(f) => run_prog(&f, vec![]),
                Err(e) => {
                    run.violation(&format!("{key}: inlined program does not compile (machinery)"), json!({"inlined": inl, "error": e}));
                    return c;
                }
            };
            c.case(h64(&key), true, h64(&want));
            c.transitions += 1;
            match compile_modules(&files, &main) {
                Ok((f, data)) => {
                    let got = run_prog(&f, data);
                    if got != want {
                        run.violation(&key, json!({"modules": files, "main": main, "inlined": inl, "modules_output": got, "inlined_output": want}));
                    }
                }
                Err(e) => run.violation(&key, json!({"modules": files, "main": main, "inlined": inl, "what": "the module set does not load/compile although every name used is visible by the scoping rules", "error": e})),
            }
            // negative: every name that is not visible at a place must be rejected there
            let mut reach = [true, false, false, false];
            for x in 0..4 {
                for y in x + 1..4 {
                    if reach[x] && g.edge[x][y] != Edge::None {
                        reach[y] = true;
                    }
                }
            }
            for m in 0..4 {
                if !reach[m] {
                    continue; // a module that is never loaded is never compiled
                }
                let last = defs_of(m).len() - 1;
                let gi = defs_of(m).iter().position(|d| d.0 == "g").unwrap();
                let mut probes: Vec<(bool, String)> = vec![];
                for (text, alias, n, a) in universe() {
                    let r_g = match alias {
                        None => resolve_plain(g, m, gi, n, a),
                        Some(al) => resolve_qualified(g, m, al, n, a),
                    };
                    if r_g.is_none() {
                        probes.push((true, text.clone()));
                    }
                    if m == 0 {
                        let r_m = match alias {
                            None => resolve_plain(g, 0, last, n, a),
                            Some(al) => resolve_qualified(g, 0, al, n, a),
                        };
                        if r_m.is_none() {
                            probes.push((false, text.clone()));
                        }
                    }
                }
                for v in VARS {
                    if !var_visible(m, true, v) {
                        probes.push((true, v.to_string()));
                    }
                    if m == 0 && !var_visible(0, false, v) {
                        probes.push((false, v.to_string()));
                    }
                }
                for (in_g, probe) in probes {
                    let (files, main) = files_of(g, Some((m, in_g, &probe)));
                    let pkey = format!("{key}: `{probe}` used in {} of module {}", if in_g { "g" } else { "the main filter" }, NAMES[m]);
                    c.case(h64(&pkey), true, h64(&("reject", m, in_g)));
                    c.transitions += 1;
                    if let Ok((f, data)) = compile_modules(&files, &main) {
                        run.violation(&pkey, json!({"modules": files, "main": main, "what": "compiles although the name is not visible there by the scoping rules", "output": run_prog(&f, data)}));
                    }
                }
            }
            c
        })
        .reduce(Counts::default, Counts::merge);
    run.family("module graphs", json!({"graphs": gs.len(), "cases": c.evaluations}));
    run.bound_done(format!("all {} module graphs (main + 3 modules, 6 forward edges x {{absent, include, import}}, both directive orders): split == inlined, and every invisible name rejected at every place", gs.len()));
    run.add(c);

    // cycles and self-imports are reported, never loop
    let mut c = Counts::default();
    let cyc: Vec<(&str, Vec<(&str, &str)>, &str)> = vec![
        ("self include", vec![("a.jq", "include \"a\"; def f: 1;")], "include \"a\"; f"),
        ("self import", vec![("a.jq", "import \"a\" as A; def f: 1;")], "import \"a\" as A; A::f"),
        ("2-cycle include", vec![("a.jq", "include \"b\"; def f: 1;"), ("b.jq", "include \"a\"; def g: 2;")], "include \"a\"; f"),
        ("2-cycle import", vec![("a.jq", "import \"b\" as B; def f: 1;"), ("b.jq", "import \"a\" as A; def g: 2;")], "import \"a\" as A; A::f"),
        ("2-cycle mixed", vec![("a.jq", "include \"b\"; def f: 1;"), ("b.jq", "import \"a\" as A; def g: 2;")], "import \"b\" as B; B::g"),
        ("3-cycle", vec![("a.jq", "include \"b\"; def f: 1;"), ("b.jq", "include \"c\"; def g: 2;"), ("c.jq", "include \"a\"; def h: 3;")], "include \"a\"; f"),
        ("3-cycle entered in the middle", vec![("a.jq", "include \"b\"; def f: 1;"), ("b.jq", "include \"c\"; def g: 2;"), ("c.jq", "include \"a\"; def h: 3;")], "include \"c\"; h"),
        ("cycle behind a diamond", vec![("a.jq", "include \"c\"; def f: 1;"), ("b.jq", "include \"c\"; def g: 2;"), ("c.jq", "include \"d\"; def h: 3;"), ("d.jq", "include \"c\"; def k: 4;")], "include \"a\"; include \"b\"; f"),
        ("missing module", vec![], "include \"nope\"; 1"),
        ("missing data", vec![], "import \"nope\" as $d; $d"),
        ("missing module behind a module", vec![("a.jq", "include \"nope\"; def f: 1;")], "include \"a\"; f"),
        ("module with a syntax error", vec![("a.jq", "def f: ;")], "include \"a\"; 1"),
        ("module with an undefined name", vec![("a.jq", "def f: nosuch;")], "include \"a\"; 1"),
        ("module ending in a filter", vec![("a.jq", "def f: 1; f")], "include \"a\"; 1"),
    ];
    for (name, fs, main) in &cyc {
        let files: BTreeMap<String, String> = fs.iter().map(|(n, t)| (n.to_string(), t.to_string())).collect();
        let key = format!("must be reported: {name}");
        let r = crate::ev::watched(|| key.clone(), false, || std::panic::catch_unwind(|| compile_modules(&files, main).map(|_| ())));
        c.case(h64(&key), true, h64(&format!("{r:?}").len()));
        match r {
            Ok(Err(_)) => {}
            Ok(Ok(())) => run.violation(&key, json!({"files": files, "main": main, "what": "accepted"})),
            Err(p) => run.violation(&key, json!({"files": files, "main": main, "what": "panic", "panic": jq::panic_msg(p)})),
        }
    }
    // acyclic sharing is fine: diamonds and a module reached by three routes
    let ok: Vec<(&str, Vec<(&str, &str)>, &str, &str)> = vec![
        ("diamond", vec![("a.jq", "include \"c\"; def f: [\"a\", h];"), ("b.jq", "include \"c\"; def g: [\"b\", h];"), ("c.jq", "def h: \"c\";")], "include \"a\"; include \"b\"; [f, g]", "[[\"a\",\"c\"],[\"b\",\"c\"]]"),
        ("same module included and imported", vec![("a.jq", "def f: \"a\";")], "include \"a\"; import \"a\" as A; import \"a\" as B; [f, A::f, B::f]", "[\"a\",\"a\",\"a\"]"),
        ("two data imports", vec![("x.json", "1 2"), ("y.json", "3"), ("a.jq", "import \"y\" as $v; def f: $v;")], "import \"x\" as $v; include \"a\"; [$v, f]", "[[1,2],[3]]"),
        ("data import under binders", vec![("x.json", "1"), ("y.json", "2"), ("a.jq", "import \"y\" as $y; def f($a): 8 as $b | [$a, $b, $y, $glob];")], "import \"x\" as $x; include \"a\"; 6 as $m | 7 as $n | [f($m), $x, $n, $glob]", "[[6,8,[2],\"G\"],[1],7,\"G\"]"),
        ("later import alias wins", vec![("a.jq", "def f: \"a\";"), ("b.jq", "def f: \"b\";")], "import \"a\" as X; import \"b\" as X; X::f", "\"b\""),
        ("module definition shadows a builtin for its includer", vec![("a.jq", "def first: \"a.first\";")], "include \"a\"; [1, 2] | first", "\"a.first\""),
        ("own definition shadows an included one", vec![("a.jq", "def f: \"a\";")], "include \"a\"; def f: \"main\"; f", "\"main\""),
        ("included definition does not see the includer", vec![("a.jq", "def f: \"a.f\"; def g: f;")], "include \"a\"; def f: \"main.f\"; g", "\"a.f\""),
    ];
    for (name, fs, main, want) in &ok {
        let files: BTreeMap<String, String> = fs.iter().map(|(n, t)| (n.to_string(), t.to_string())).collect();
        let key = format!("sharing: {name}");
        c.case(h64(&key), true, h64(want));
        match compile_modules(&files, main) {
            Ok((f, data)) => {
                let got = run_prog(&f, data);
                let want_t = json!([{"out": want}, "end"]).to_string();
                if got != want_t {
                    run.violation(&key, json!({"files": files, "main": main, "output": got, "expected": want}));
                }
            }
            Err(e) => run.violation(&key, json!({"files": files, "main": main, "error": e})),
        }
    }
    run.family("cycles, missing files, sharing", json!({"must_be_reported": cyc.len(), "sharing": ok.len()}));
    run.add(c);

    // search order and file names at process level
    let c = ext::run_python(&run, "c16_search.py", &[]);
    run.add(c);

    let g0 = &gs[2 * (1 + 3 * 2 + 9 * 0 + 27 * 1 + 81 * 2 + 243 * 1)];
    DATA_MASK.with(|d| d.set(g0.data));
    run.sample(json!({"graph": format!("{:?}", g0.edge), "main": module_text(g0, 0, None, None), "a.jq": module_text(g0, 1, None, None), "b.jq": module_text(g0, 2, None, None), "inlined": inlined(g0)}));
    run.finish(
        "module graphs: main and three modules a, b, c; each of the six forward edges is absent, an include or an import with an alias (729 graphs, each with both directive orders); every module defines f (a twice), first (shadowing the builtin), h($v), a unique u_x, g (b and c also w); main and b import a data file as $d; a global $glob; g and the main filter call every name that an independent resolver (own definitions up to the calling one, then included modules latest first with only their own definitions, then builtins; aliases latest first; variables: local, own data import, global) says is visible, from under two binders. The module set is loaded from an in-memory file system by the real loader and compiler; its output must equal the output of the inlined single program. Every name the resolver says is invisible at a place is inserted there and must make loading or compilation fail. Cycles, missing files and broken modules must be reported; diamonds, repeated imports, several data imports work. At process level: every placement of a module among the candidate directories (search metadata relative to the importing file or the working directory, -L paths, ~ and $ORIGIN), extension rules, absolute paths. non-trivial = every case",
        &["the resolver is written from docs/advanced.dj and the property statement (includes are not transitive)", "the in-memory loader replaces only the file lookup; parsing, module table and compilation are the real ones"],
    )
}
