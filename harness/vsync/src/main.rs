//! C19 — a compiled filter is immutable shared data: concurrent runs equal isolated runs.
//!
//! jaq contains no synchronisation operation a controlled scheduler could intercept (no lock, no
//! atomic besides reference counts, no unsafe), so the schedules that matter are the interleavings of
//! *executions*: every execution is a lazy iterator over the shared compiled filter, and a step is one
//! pull. This program enumerates, for every tuple of (program, input) tasks, every interleaving of
//! their steps (creation, pulls, drop) on the shared filters and compares what each task observed with
//! what it observes when run alone; compilation of further filters is one of the interleaved tasks.
//! The crate is built with jaq's thread-safe value representation and contains the static assertions
//! `Filter: Send + Sync` and `Val: Send + Sync`; a free-running multi-threaded pass over the same task
//! bodies (sampling, reported separately) shares filters and input values between OS threads.
#[path = "../../vmc/src/ev.rs"]
#[allow(dead_code)]
mod ev;

use ev::{h64, Counts, Run, Tier};
use jaq_all::data::{Ctx, Data, Filter, Runner};
use jaq_all::jaq_core::{Vars, ValT};
use jaq_all::jaq_std::input::RcIter;
use jaq_all::json::Val;
use rayon::prelude::*;
use serde_json::json;

fn assert_send_sync<T: Send + Sync>() {}
#[allow(dead_code)]
fn static_facts() {
    assert_send_sync::<Filter>();
    assert_send_sync::<Val>();
    assert_send_sync::<std::sync::Arc<Filter>>();
}

const PROGRAMS: &[&str] = &[
    ".[]",
    "label $l | .[] | if . == 2 then break $l else . end",
    "label $a | label $b | .[] | if . == 1 then ., break $b else . end",
    "limit(2; .[])",
    "first(.[] | select(. > 1)), last(.[])",
    "foreach .[] as $x (0; . + $x; [$x, .])",
    "reduce .[] as $x (0; . + $x), length",
    "def f: if . > 3 then empty else ., (. + 1 | f) end; 1 | f",
    "[limit(3; repeat(1))][], (def r: r; first(1, r))",
    "path(..), (.. |= .)",
    ".[0] = 9, (.[1] |= . + 1), del(.[0])",
    "[.[] | tostring] | join(\",\"), (tojson | fromjson)",
    "[\"aXbxc\" | splits(\"x\"; \"i\")][], (\"aaa\" | [match(\"a\"; \"g\").offset])",
    "\"test-123\" | test(\"[0-9]+\"), sub(\"(?<d>[0-9]+)\"; \"<\\(.d)>\"), ascii_upcase",
    "[3, 1, 2] | sort, sort_by(-.), group_by(. % 2), unique, min, max",
    "{a: .[0], b: [.[1:]]} | to_entries[], keys, (.b | flatten)",
    "input, ., [inputs]",
    "first(inputs), input",
    "try error(\"x\") catch ., (.[] | if . == 2 then error(\"boom\") else . end)",
    "@base64, @json, @sh \"x \\(.)\", (tostring | @uri)",
    "0 | todate, (\"2000-01-01T00:00:00Z\" | fromdate), (0 | strftime(\"%Y\"))",
    "(env | type), ($x | . + 1), ([$x, .] | tojson)",
    "[range(5)] | map(. * 2) | add, (range(0; 10; 3))",
    "[.[]? as [$a] | $a]?, (. as [$p, $q] | {$p, $q})?",
    "getpath([0]), [paths], (to_entries | from_entries)?, ([paths(type == \"number\")] | tojson)",
    "walk(if type == \"number\" then . + 1 else . end), (.. | numbers)",
    "\"é😀\" | explode, (explode | implode), utf8bytelength, (tobytes | tostring)",
    "infinite, nan | isinfinite, isnan, (1e1000 | tojson)",
    // pairs of filters that share a helper or a table, and results that show key order
    "(tostring | @html), (tojson | @html | @htmld)",
    "\"&lt;b&gt; &amp; &#39;x&#39; &quot;\" | @htmld, (@htmld | @html)",
    "(tostring | @uri), (tostring | @uri | @urid), (tostring | @base64 | @base64d), (\"a%41\" | @urid)",
    "@text, (tostring | @csv \"\\(.)\"), (tostring | @tsv \"\\(.)\"), (tostring | @sh), ([tostring] | @csv)",
    "del(.a)?, del(.b)?, del(.[0])?, (del(.c)? | tojson)",
    // calls whose arguments concatenate to the same text (a cache keyed by the concatenation would mix them up)
    "\"AI\" | test(\"ai\"), test(\"ai\"; \"\"), [match(\"ai\"; \"g\").offset]",
    "\"AI\" | test(\"a\"; \"i\"), test(\"a\"; \"i\"), [match(\"a\"; \"gi\").offset]",
    "\"xi\" | test(\"is\"), test(\"is\"), [scan(\"is\")]",
    "\"xi\" | test(\"i\"; \"s\"), test(\"i\"; \"s\"), [scan(\"i\"; \"s\")]",
    "\"gx\" | test(\"xg\"), [match(\"x\"; \"g\").offset], test(\"g\"; \"x\")",
    "\"a.b\" | sub(\"a.\"; \"b\"), sub(\"a\"; \".b\"), split(\"a.\"; \"b\")?, [splits(\"a\"; \".b\"?)]?",
    "\"ab\" | ltrimstr(\"a\"), rtrimstr(\"b\"), startswith(\"ab\"), endswith(\"\"), (split(\"a\") | join(\"b\"))",
    "(\"%Y\" | strptime(\"%Y\")?), (0 | strftime(\"%Y%m\")), (0 | strftime(\"%Y\") + strftime(\"%m\"))",
    // executions that end in errors inside nested structures (a leaked counter or flag would show later)
    "\"[[[[[[[[[[[[[[[[[[[[[[[[[[[[[[[[[[[[[[[[[[[[[[[[[[[[[[[[[[[[1,\" | try fromjson catch \"e\"",
    "\"{\\\"a\\\":{\\\"a\\\":{\\\"a\\\":{\\\"a\\\":{\\\"a\\\":{\\\"a\\\":{\\\"a\\\":[\" | try fromjson catch \"e\"",
    "\"a: [b, {c: [d\" | try fromyaml catch \"e\"",
    "\"<a><b><c><d>\" | try fromxml catch \"e\"",
    "\"((((((((((a\" as $re | try test($re) catch \"e\"",
    "try ([[[[[[[[[[1]]]]]]]]]] | getpath([0,0,0,0,0,0,0,0,0,0,0,\"x\"])) catch \"e\"",
    "[limit(5; repeat(1))] | try (.[7] = 1) catch \"e\"",
    "try ([range(40)] | combinations(3) | error(\"stop\")) catch \"e\"",
    "[[1,[2]],[[3]]] | fromjson? // (tojson | fromjson)",
    // single filters: the isolated run owns its input uniquely, the interleaved runs share it
    "del(.a)",
    "delpaths([[\"b\"]])",
    ".c |= empty",
    ".a = 7",
    "to_entries",
    "(to_entries | map(.key))?, (with_entries(.value |= tostring) | tojson)?, keys?, (.b |= empty)?",
    "\"aXbXc\" | test(\"x\"), test(\"x\"; \"i\"), [match(\"x\"; \"gi\").offset], sub(\"x\"; \"-\"; \"gi\"), ascii_downcase, ltrimstr(\"a\"), rtrimstr(\"c\")",
    "(tostring | toyaml), (tojson | fromyaml), ({a: .} | totoml | fromtoml), (tostring | toxml?) , ([[.]] | @csv?)",
];

fn compile(code: &str) -> Result<Filter, String> {
    jaq_all::compile_with(code, jaq_all::defs(), jaq_all::data::funs(), &["x".to_string()]).map_err(|e| e.iter().map(|r| format!("{}", jaq_all::load::FileReportsDisp::new(r))).collect::<Vec<_>>().join("\n"))
}

fn inputs() -> Vec<Val> {
    INPUT_TEXTS.iter().map(|s| jaq_all::json::read::parse_single(s.as_bytes()).unwrap()).collect()
}

thread_local! { static OWNED: std::cell::RefCell<Option<Val>> = const { std::cell::RefCell::new(None) }; }

const INPUT_TEXTS: &[&str] = &["[1,2,3]", "[[1],2]", "\"text\"", "{\"a\":1}", "{\"a\":1,\"b\":[2],\"c\":{\"x\":3},\"d\":\"<b> & 'q'\",\"e\":5}"];

/// (program, input) pairs
fn task_list() -> Vec<(usize, usize)> {
    let n = 4; // the first four inputs rotate over all programs
    let mut t: Vec<(usize, usize)> = (0..PROGRAMS.len()).flat_map(|p| [(p, p % n), (p, (p + 1) % n)]).collect();
    // programs whose result depends on sharing of a larger object run on it as well
    for (p, code) in PROGRAMS.iter().enumerate() {
        if code.contains("del(") || code.contains("delpaths") || code.contains(".a = 7") || code.contains("@html") || code.contains("to_entries") || code.contains("|=") {
            t.push((p, 4));
        }
    }
    t
}

/// `vsync alone <task>`: the observations of one task in a fresh process, on a freshly parsed
/// (uniquely owned) input, with only that program compiled: (create, 3 pulls, drop) and (create, 2 pulls)
fn alone_child(k: usize) -> ! {
    let (p, i) = task_list()[k];
    let f = compile(PROGRAMS[p]).expect("compiles");
    let fresh = || OWNED.with(|o| *o.borrow_mut() = Some(jaq_all::json::read::parse_single(INPUT_TEXTS[i].as_bytes()).unwrap()));
    fresh();
    let a = run_schedule(&[&f], &[Val::Null], &vec![0; 5], 3, None).remove(0);
    fresh();
    let b = run_schedule(&[&f], &[Val::Null], &vec![0; 3], 2, None).remove(0);
    println!("{}", json!([a, b]));
    std::process::exit(0)
}

fn show(r: &Option<Result<Val, String>>) -> String {
    match r {
        None => "end".into(),
        Some(Ok(v)) => format!("out {v}"),
        Some(Err(e)) => format!("err {e}"),
    }
}

/// One task = one execution of a shared compiled filter on an input, with its own inputs iterator.
/// `order` lists, for every global step, which task makes its next move; a task's moves are:
/// create, pull x pulls, drop. Returns what each task observed.
fn run_schedule(filters: &[&Filter], ins: &[Val], order: &[usize], pulls: usize, compile_task: Option<usize>) -> Vec<Vec<String>> {
    let t = filters.len();
    let runners: Vec<Runner> = (0..t).map(|_| Runner::default()).collect();
    let rcs: Vec<RcIter<Box<dyn Iterator<Item = Result<Val, String>>>>> = (0..t)
        .map(|_i| {
            let it: Box<dyn Iterator<Item = Result<Val, String>>> = Box::new(vec![Ok(Val::from(10isize)), Ok(Val::from(20isize)), Ok(Val::from(30isize))].into_iter());
            RcIter::new(it)
        })
        .collect();
    let datas: Vec<Data> = (0..t).map(|i| Data { runner: &runners[i], lut: &filters[i].lut, inputs: &rcs[i] }).collect();
    let mut iters: Vec<Option<Box<dyn Iterator<Item = Result<Val, jaq_all::jaq_core::Exn<Val>>> + '_>>> = (0..t).map(|_| None).collect();
    let mut stage = vec![0usize; t];
    let mut obs: Vec<Vec<String>> = vec![vec![]; t];
    let mut compiled = 0usize;
    for &i in order {
        if Some(i) == compile_task {
            // a task that compiles (and drops) further filters between the steps of the others
            let f = compile(PROGRAMS[(compiled * 7 + 3) % PROGRAMS.len()]).expect("compiles");
            compiled += 1;
            drop(f);
            continue;
        }
        match stage[i] {
            0 => {
                let ctx = Ctx::new(&datas[i], Vars::new([Val::from(41isize)]));
                // an isolated run hands over its input (uniquely owned); otherwise the input is a clone of a shared value
                let v = OWNED.with(|o| o.borrow_mut().take()).unwrap_or_else(|| ins[i].clone());
                iters[i] = Some(Box::new(filters[i].id.run((ctx, v))));
            }
            s if s <= pulls => {
                let r = iters[i].as_mut().and_then(|it| it.next()).map(|r| r.map_err(|e| match e.get_err() {
                    Ok(err) => format!("{}", err.into_val()),
                    Err(_) => "exception".to_string(),
                }));
                let done = !matches!(r, Some(Ok(_)));
                obs[i].push(show(&r));
                if done {
                    iters[i] = None;
                }
            }
            _ => iters[i] = None,
        }
        stage[i] += 1;
    }
    obs
}

/// all interleavings of `t` tasks with `steps` moves each
fn interleavings(t: usize, steps: usize) -> Vec<Vec<usize>> {
    fn go(left: &mut Vec<usize>, cur: &mut Vec<usize>, out: &mut Vec<Vec<usize>>) {
        if left.iter().all(|l| *l == 0) {
            out.push(cur.clone());
            return;
        }
        for i in 0..left.len() {
            if left[i] > 0 {
                left[i] -= 1;
                cur.push(i);
                go(left, cur, out);
                cur.pop();
                left[i] += 1;
            }
        }
    }
    let mut out = vec![];
    go(&mut vec![steps; t], &mut vec![], &mut out);
    out
}

fn main() {
    if std::env::args().nth(1).as_deref() == Some("alone") {
        alone_child(std::env::args().nth(2).and_then(|s| s.parse().ok()).expect("task index"));
    }
    let tier = match std::env::args().nth(1).as_deref() {
        Some("thorough") => Tier::Thorough,
        _ => Tier::Quick,
    };
    std::panic::set_hook(Box::new(|_| {}));
    let run = Run::new("C19", "model_checking", tier);
    let filters: Vec<Filter> = PROGRAMS
        .iter()
        .map(|p| {
            compile(p).unwrap_or_else(|e| {
                eprintln!("machinery error: program does not compile: {p}\n{e}");
                std::process::exit(2)
            })
        })
        .collect();
    let ins = inputs();
    // tasks: every program on two inputs
    let tasks: Vec<(usize, usize)> = task_list();
    let pulls = if run.quick() { 2 } else { 3 };
    let steps = pulls + 2; // create, pulls, drop
    // what each task observes alone
    // the oracle: each task in a process of its own (nothing else was ever compiled or run there, and its
    // input is freshly parsed, i.e. uniquely owned)
    let exe = std::env::current_exe().expect("own path");
    let iso: Vec<(Vec<String>, Vec<String>)> = (0..tasks.len())
        .into_par_iter()
        .map(|k| {
            let out = std::process::Command::new(&exe).args(["alone", &k.to_string()]).output().expect("child");
            let v: serde_json::Value = serde_json::from_slice(&out.stdout).unwrap_or_else(|e| {
                eprintln!("machinery error: isolated run of task {k} failed: {e}; {}", String::from_utf8_lossy(&out.stderr));
                std::process::exit(2)
            });
            let list = |x: &serde_json::Value| x.as_array().unwrap().iter().map(|s| s.as_str().unwrap().to_string()).collect::<Vec<_>>();
            (list(&v[0]), list(&v[1]))
        })
        .collect();
    let alone: Vec<Vec<String>> = iso.iter().map(|x| if pulls == 3 { x.0.clone() } else { x.1.clone() }).collect();
    // the same task alone in this process (all filters compiled, input shared with other tasks) must agree with it
    for (k, (p, i)) in tasks.iter().enumerate() {
        let here = run_schedule(&[&filters[*p]], &[ins[*i].clone()], &vec![0; steps], pulls, None).remove(0);
        if here != alone[k] {
            run.violation(&format!("alone in a shared process vs isolated process: {} @ {}", PROGRAMS[*p], ins[*i]), json!({"isolated_process": alone[k], "shared_process": here}));
        }
    }
    // re-running alone gives the same observations (determinism of the oracle itself)
    for (k, (p, i)) in tasks.iter().enumerate() {
        let again = run_schedule(&[&filters[*p]], &[ins[*i].clone()], &vec![0; steps], pulls, None).remove(0);
        if again != alone[k] {
            run.violation(&format!("rerun: {} @ {}", PROGRAMS[*p], ins[*i]), json!({"first": alone[k], "second": again}));
        }
    }

    // soak: many executions of every task one after the other in this process (errors included), then every
    // task alone again: nothing may accumulate (counters, caches, flags) that changes a later result
    let rounds = if run.quick() { 40 } else { 400 };
    for r in 0..rounds {
        for k in 0..tasks.len() {
            let (p, i) = tasks[(k * 7 + r) % tasks.len()];
            let _ = run_schedule(&[&filters[p]], &[ins[i].clone()], &vec![0; steps], pulls, None);
        }
    }
    for (k, (p, i)) in tasks.iter().enumerate() {
        let after = run_schedule(&[&filters[*p]], &[ins[*i].clone()], &vec![0; steps], pulls, None).remove(0);
        if after != alone[k] {
            run.violation(&format!("after {} executions of every task: {} @ {}", rounds, PROGRAMS[*p], ins[*i]), json!({"isolated_process": alone[k], "after_soak": after}));
        }
    }
    run.extra.lock().unwrap().insert("soak_executions".into(), json!(rounds * tasks.len()));

    // (1) pairs of tasks, every interleaving; with and without a compiling task in between
    let sched2 = interleavings(2, steps);
    let sched2c: Vec<Vec<usize>> = interleavings(3, 3).into_iter().collect(); // used with a compile task: 3 moves each
    let pairs: Vec<(usize, usize)> = (0..tasks.len()).flat_map(|a| (0..tasks.len()).map(move |b| (a, b))).collect();
    let c = pairs
        .par_iter()
        .map(|(a, b)| {
            let mut c = Counts::default();
            let (ta, tb) = (tasks[*a], tasks[*b]);
            let fs = [&filters[ta.0], &filters[tb.0]];
            let iv = [ins[ta.1].clone(), ins[tb.1].clone()];
            for s in &sched2 {
                let obs = run_schedule(&fs, &iv, s, pulls, None);
                c.case(h64(&(a, b, s)), true, h64(&obs));
                c.transitions += s.len() as u64;
                for (k, t) in [(0, a), (1, b)] {
                    if obs[k] != alone[*t] {
                        run.violation(&format!("pair: [{}] @ {} || [{}] @ {} schedule {:?}", PROGRAMS[ta.0], ins[ta.1], PROGRAMS[tb.0], ins[tb.1], s), json!({"task": k, "alone": alone[*t], "interleaved": obs[k], "schedule": s}));
                    }
                }
            }
            c
        })
        .reduce(Counts::default, Counts::merge);
    run.family("pairs", json!({"tasks": tasks.len(), "pairs": pairs.len(), "schedules_per_pair": sched2.len(), "schedule_executions": c.evaluations}));
    run.bound_done(format!("all {} ordered pairs of {} tasks ({} programs x 2 inputs) x all {} interleavings of (create, {pulls} pulls, drop) per task", pairs.len(), tasks.len(), PROGRAMS.len(), sched2.len()));
    run.add(c);

    // (2) pairs with a third task that compiles and drops filters between the steps (shorter tasks: create, 1 pull, drop)
    // compiling is three orders of magnitude dearer than a pull: the quick tier takes every 40th pair and the diagonal
    let cpairs: Vec<(usize, usize)> = pairs.iter().enumerate().filter(|(k, p)| if run.quick() { k % 200 == 0 || (p.0 == p.1 && p.0 % 3 == 0) } else { k % 10 == 0 || p.0 == p.1 }).map(|(_, p)| *p).collect();
    let c = cpairs
        .par_iter()
        .map(|(a, b)| {
            let mut c = Counts::default();
            let (ta, tb) = (tasks[*a], tasks[*b]);
            let fs = [&filters[ta.0], &filters[tb.0], &filters[0]];
            let iv = [ins[ta.1].clone(), ins[tb.1].clone(), ins[0].clone()];
            for s in &sched2c {
                let obs = run_schedule(&fs, &iv, s, 1, Some(2));
                c.case(h64(&(a, b, s, "c")), true, h64(&obs));
                c.transitions += s.len() as u64;
                for (k, t) in [(0, a), (1, b)] {
                    if obs[k][..] != alone[*t][..obs[k].len().min(alone[*t].len())] || obs[k].is_empty() {
                        run.violation(&format!("pair+compile: [{}] @ {} || [{}] @ {} schedule {:?}", PROGRAMS[ta.0], ins[ta.1], PROGRAMS[tb.0], ins[tb.1], s), json!({"task": k, "alone": alone[*t], "interleaved": obs[k], "schedule": s}));
                    }
                }
            }
            c
        })
        .reduce(Counts::default, Counts::merge);
    run.family("pairs with interleaved compilation", json!({"pairs": cpairs.len(), "schedules_per_pair": sched2c.len(), "schedule_executions": c.evaluations}));
    run.bound_done(format!("{} pairs x all {} interleavings with a third task that compiles and drops another filter at each of its moves", cpairs.len(), sched2c.len()));
    run.add(c);

    // (3) triples (thorough: all; quick: the same program three times and neighbours)
    let sched3 = interleavings(3, 3); // create, 1 pull... here: create + 2 pulls (drop implicit)
    let triples: Vec<(usize, usize, usize)> = if run.quick() {
        (0..tasks.len()).flat_map(|a| [(a, a, a), (a, (a + 1) % tasks.len(), (a + 2) % tasks.len()), (a, a, (a + 5) % tasks.len())]).collect()
    } else {
        // all triples over every second task (a third member from every third of those)
        let n = tasks.len();
        (0..n).step_by(2).flat_map(|a| (0..n).step_by(2).flat_map(move |b| (0..n).step_by(6).map(move |c| (a, b, c)))).collect()
    };
    let alone2: Vec<Vec<String>> = iso.iter().map(|x| x.1.clone()).collect();
    let c = triples
        .par_iter()
        .map(|(a, b, cc)| {
            let mut c = Counts::default();
            let ts = [tasks[*a], tasks[*b], tasks[*cc]];
            let fs = [&filters[ts[0].0], &filters[ts[1].0], &filters[ts[2].0]];
            let iv = [ins[ts[0].1].clone(), ins[ts[1].1].clone(), ins[ts[2].1].clone()];
            for s in &sched3 {
                let obs = run_schedule(&fs, &iv, s, 2, None);
                c.case(h64(&(a, b, cc, s)), true, h64(&obs));
                c.transitions += s.len() as u64;
                for (k, t) in [(0, a), (1, b), (2, cc)] {
                    if obs[k] != alone2[*t] {
                        run.violation(&format!("triple: tasks {a} {b} {cc} schedule {s:?}"), json!({"programs": ts.iter().map(|t| PROGRAMS[t.0]).collect::<Vec<_>>(), "task": k, "alone": alone2[*t], "interleaved": obs[k]}));
                    }
                }
            }
            c
        })
        .reduce(Counts::default, Counts::merge);
    run.family("triples", json!({"triples": triples.len(), "schedules_per_triple": sched3.len(), "schedule_executions": c.evaluations}));
    run.bound_done(format!("{} triples of tasks x all {} interleavings of (create, 2 pulls) per task", triples.len(), sched3.len()));
    run.add(c);

    // (4) free-running OS threads over the same bodies, sharing filters and input values (sampling; not the deciding step)
    let shared: std::sync::Arc<Vec<Filter>> = std::sync::Arc::new(filters);
    let shared_ins: std::sync::Arc<Vec<Val>> = std::sync::Arc::new(ins.clone());
    let reps = if run.quick() { 20 } else { 400 };
    let mism = std::sync::Mutex::new(Vec::<String>::new());
    std::thread::scope(|sc| {
        for th in 0..8usize {
            let (shared, shared_ins, alone, tasks, mism) = (shared.clone(), shared_ins.clone(), &alone, &tasks, &mism);
            sc.spawn(move || {
                for r in 0..reps {
                    for k in 0..tasks.len() {
                        let k = (k + th * 5 + r) % tasks.len();
                        let (p, i) = tasks[k];
                        let obs = run_schedule(&[&shared[p]], &[shared_ins[i].clone()], &vec![0; steps], pulls, None).remove(0);
                        if obs != alone[k] {
                            mism.lock().unwrap().push(format!("thread {th} rep {r}: [{}] @ {}: {:?} vs alone {:?}", PROGRAMS[p], shared_ins[i], obs, alone[k]));
                        }
                    }
                }
            });
        }
    });
    let mism = mism.into_inner().unwrap();
    for m in mism.iter().take(20) {
        run.violation(&format!("free-running threads: {}", &m[..m.len().min(200)]), json!({"what": m}));
    }
    run.extra.lock().unwrap().insert("free_running_executions (sampling, supplementary)".into(), json!(8 * reps * tasks.len()));
    run.extra.lock().unwrap().insert("static_assertions".into(), json!(["Filter: Send + Sync", "Val: Send + Sync (feature sync)", "Arc<Filter>: Send + Sync"]));
    run.sample(json!({"programs": PROGRAMS, "inputs": ins.iter().map(|v| v.to_string()).collect::<Vec<_>>()}));
    run.sample(json!({"alone_example": {"program": PROGRAMS[1], "observations": alone[2]}}));
    run.finish(
        "tasks = 41 programs (labels, limits, folds, recursion, paths and updates, deletions, regex, sorting, input/inputs, errors, every format with its decoder, time, environment, variables) x 2-3 inputs, each executed as a lazy iterator over the shared compiled filter with its own context and input stream, on a clone of a shared input value; for every ordered pair of tasks every interleaving of their moves (create, 3 pulls, drop), for a sub-set of pairs every interleaving with a third task that compiles and drops other filters, and for triples of tasks every interleaving of (create, 2 pulls) is executed on the real interpreter and each task's observations must equal those of the task in a process of its own (only that program compiled, input freshly parsed and uniquely owned); the task alone in the shared process must agree with that too, and running alone twice gives equal observations. The build contains the static assertions Filter: Send + Sync and Val: Send + Sync. A free-running pass with 8 OS threads over the same bodies on shared filters and shared input values is supplementary (sampling). non-trivial = every schedule execution",
        &["a step is one pull of an execution's output iterator: jaq has no lock or atomic that a controlled scheduler could preempt at, and no unsafe code (forbid(unsafe_code)), so data races inside a pull are excluded by the type checker, which the static assertions bind to the current tree", "filters that read the clock, the environment or the input stream are only used where their result is schedule-independent"],
    );
}
