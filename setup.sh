#!/bin/bash
# Offline build of the verification machinery (MANIFEST.setup_cmd).
set -e
cd "$(dirname "$0")"
V="$(pwd)"
export CARGO_NET_OFFLINE=true
ln -sfn "${VERIF_REPO:-/repo}" repo-link
mkdir -p target/logs evidence
( cd harness && cargo build --release -q )
( cd harness && cargo build --profile fast -q )
( cd repo-link && CARGO_TARGET_DIR="$V/target/jaqbin" cargo build -q -p jaq --offline )
if [ -f tools/sysmon.c ]; then gcc -O2 -o target/sysmon tools/sysmon.c; fi
echo setup ok
