#!/bin/bash
# Offline build of the verification machinery (MANIFEST.setup_cmd).
set -e
cd "$(dirname "$0")"
V="$(pwd)"
export CARGO_NET_OFFLINE=true
ln -sfn "${VERIF_REPO:-/repo}" repo-link
mkdir -p target/logs evidence
( cd harness && cargo build --release -p vmc -q && cargo build --release -p vsync -q )
( cd harness && cargo build --profile fast -p vmc -q )
( cd repo-link && CARGO_TARGET_DIR="$V/target/jaqbin" cargo build -q -p jaq --offline )
if [ -f tools/sysmon.c ]; then gcc -O2 -o target/sysmon tools/sysmon.c; fi
echo setup ok
